"""C02 — DWT synthesis inverts analysis (perfect reconstruction)."""
import numpy as np
from .. import rt, gen, proto
from .. import oracle_pywt as O
from ..dwt_common import *
from ..impl_dwt import IMPL

PROP = 'C02'
MODULE = 'WaveletsVerif.Properties.C02'
THEOREMS = ['WV.C02.pr_zero', 'WV.C02.pr_any_extension', 'WV.C02.pr_padded', 'WV.C02.impl_pr_padded', 'WV.C02.ext_inside', 'WV.C02.pr_periodization_even', 'WV.C02.pr_periodization', 'WV.C02.impl_pr_periodization', 'WV.pr_line', 'WV.C02.pr_zero_length', 'WV.C02.pr_two_tap_zero', 'WV.C02.unpad_length', 'WV.C02.idwt_length_zero', 'WV.C01.afb1dOne_zero_eq_dwt', 'WV.C10.sfb1dCh_eq_idwt', 'WV.C01.afb1dOne_per_eq_dwt_partial_all', 'WV.C10.sfb1dCh_per_eq_idwt_partial',
            'WV.C02J.level_pr', 'WV.C02J.pyramid_pr', 'WV.C02J.compat_wavedec', 'WV.C02J.DWT1D_roundtrip',
            'WV.C02K.level2d_pr', 'WV.C02K.unpad_topleft', 'WV.C02K.pyramid2d_pr', 'WV.C02K.DWT2D_roundtrip',
            'WV.C02P.level2d_pr_per', 'WV.C02P.pyramid2d_pr_per', 'WV.C02P.DWT2D_roundtrip_per', 'WV.C01P.DWTForward_per_eq_wavedec2', 'WV.C10P.DWTInverse_per_eq_waverec2',
            'WV.C02Q.pyramid_pr_per', 'WV.C02Q.DWT1D_roundtrip_per', 'WV.C10Z.module_glue_gen']
KF = 'C02-periodization-short'
OPS = ['afb1d', 'sfb1d', 'DWT1DForward', 'DWT1DInverse', 'DWTForward', 'DWTInverse']


def oracle_pr(ck, dims, m, J, name, x):
    import pywt
    if isinstance(name, (tuple, list)):
        return oracle_pr2(ck, m, J, name[0], name[1], x)
    w = pywt.Wavelet(name); L = w.dec_len
    dec = (np.array(w.dec_lo), np.array(w.dec_hi)); rec = (np.array(w.rec_lo), np.array(w.rec_hi))
    # PyWavelets' own reconstruction error on the same input is the yardstick (dmey etc.)
    try:
        if dims == 1:
            c = pywt.wavedec(x, w, mode=gen.MODE_NAME[m], level=J, axis=-1); r = pywt.waverec(c, w, mode=gen.MODE_NAME[m], axis=-1)
            perr = float(np.max(np.abs(r[..., :x.shape[-1]] - x)))
        else:
            c = pywt.wavedec2(x, w, mode=gen.MODE_NAME[m], level=J); r = pywt.waverec2(c, w, mode=gen.MODE_NAME[m])
            perr = float(np.max(np.abs(r[..., :x.shape[-2], :x.shape[-1]] - x)))
    except Exception:
        return None
    fop, iop = ('DWT1DForward', 'DWT1DInverse') if dims == 1 else ('DWTForward', 'DWTInverse')
    fcase = rt.Case('Z', fop, [m, J] + ([2] if dims == 2 else []), list(dec) + [x])
    from .. import impl_dwt
    with impl_dwt.named(name):
        fw = rt.run_impl(fcase, IMPL)
    desc = '%dD PR %s mode=%s J=%d shape=%s' % (dims, name, gen.MODE_NAME[m], J, tuple(x.shape))
    replay = {'oracle': 'pr', 'dims': dims, 'm': m, 'J': J, 'name': name, 'x': arr_json(x)}
    if dims == 1:
        sizes, _ = level_sizes(x.shape[-1], L, m, J)
        short = per_short_fwd(sizes, L, m) or per_short_inv([(n + 1) // 2 for n in sizes], L, m)
        may_raise = m == 4 and reflect_may_raise(sizes, L)
    else:
        sh, _ = level_sizes(x.shape[-2], L, m, J); sw, _ = level_sizes(x.shape[-1], L, m, J)
        short = (per_short_fwd(sh, L, m) or per_short_fwd(sw, L, m) or per_short_inv([(n + 1) // 2 for n in sh], L, m)
                 or per_short_inv([(n + 1) // 2 for n in sw], L, m))
        may_raise = m == 4 and (reflect_may_raise(sh, L) or reflect_may_raise(sw, L))
    if isinstance(fw, tuple):
        if may_raise:
            ck.oracle_ok(('raise', dims, m), nontriv=False, group='forward-raises(reflect)')
            return None       # quantifier: "(wavelet, mode, J, size) on which the forward transform returns"
        ck.oracle_ok(('raise', dims, m), nontriv=False, group='forward-raises')
        return None
    icase = rt.Case('Z', iop, [m] + ([2] if dims == 2 else []), list(rec) + list(fw))
    with impl_dwt.named(name):
        bw = rt.run_impl(icase, IMPL)
    if isinstance(bw, tuple):
        ck.fail(desc + ': inverse raises %s: %s' % (bw[1], bw[2]), replay, known_key=KF if short else None)
        return 'raise'
    y = bw[0]
    ok = True; why = ''
    for ax in range(1, dims + 1):
        n0 = x.shape[-ax]; n1 = y.shape[-ax]
        if n1 not in (n0, n0 + 1):
            ok = False; why = 'axis -%d has length %d for input length %d' % (ax, n1, n0)
    if ok:
        yc = y[..., :x.shape[-1]] if dims == 1 else y[..., :x.shape[-2], :x.shape[-1]]
        sc = max(1.0, float(np.max(np.abs(x))))
        err = float(np.max(np.abs(yc - x)))
        if err > max(10 * perr, 1e-9 * sc):
            ok = False; why = 'max reconstruction error %.3g (PyWavelets: %.3g, scale %.3g)' % (err, perr, sc)
    if ok:
        ck.oracle_ok((dims, m, J, name, tuple(x.shape)), group='pr%dd' % dims,
                     sample={'wavelet': name, 'mode': gen.MODE_NAME[m], 'J': J, 'shape': list(x.shape), 'max_err': float(np.max(np.abs(yc - x))), 'pywt_err': perr})
        return None
    ck.fail(desc + ': ' + why, replay, known_key=KF if short else None)
    return 'diff'


def oracle_pr2(ck, m, J, ncol, nrow, x):
    """2-D round trip with a different wavelet per axis (4-tuple waves)"""
    import pywt
    wc, wr = pywt.Wavelet(ncol), pywt.Wavelet(nrow)
    desc = '2D PR cols=%s rows=%s mode=%s J=%d shape=%s' % (ncol, nrow, gen.MODE_NAME[m], J, tuple(x.shape))
    replay = {'oracle': 'pr', 'dims': 2, 'm': m, 'J': J, 'name': [ncol, nrow], 'x': arr_json(x)}
    try:
        c = pywt.wavedec2(x, (wc, wr), mode=gen.MODE_NAME[m], level=J); r = pywt.waverec2(c, (wc, wr), mode=gen.MODE_NAME[m])
        perr = float(np.max(np.abs(r[..., :x.shape[-2], :x.shape[-1]] - x)))
    except Exception:
        return None
    sh, _ = level_sizes(x.shape[-2], wc.dec_len, m, J); sw, _ = level_sizes(x.shape[-1], wr.dec_len, m, J)
    short = (per_short_fwd(sh, wc.dec_len, m) or per_short_fwd(sw, wr.dec_len, m) or per_short_inv([(n + 1) // 2 for n in sh], wc.dec_len, m)
             or per_short_inv([(n + 1) // 2 for n in sw], wr.dec_len, m))
    dec = [np.array(wc.dec_lo), np.array(wc.dec_hi), np.array(wr.dec_lo), np.array(wr.dec_hi)]
    rec = [np.array(wc.rec_lo), np.array(wc.rec_hi), np.array(wr.rec_lo), np.array(wr.rec_hi)]
    fw = rt.run_impl(rt.Case('Z', 'DWTForward', [m, J, 4], dec + [x]), IMPL)
    if isinstance(fw, tuple):
        return None
    bw = rt.run_impl(rt.Case('Z', 'DWTInverse', [m, 4], rec + list(fw)), IMPL)
    if isinstance(bw, tuple):
        ck.fail(desc + ': inverse raises %s: %s' % (bw[1], bw[2]), replay, known_key=KF if short else None); return 'raise'
    y = bw[0]
    if y.shape[-2] not in (x.shape[-2], x.shape[-2] + 1) or y.shape[-1] not in (x.shape[-1], x.shape[-1] + 1):
        ck.fail(desc + ': output extent %s for input %s' % (tuple(y.shape[-2:]), tuple(x.shape[-2:])), replay, known_key=KF if short else None); return 'shape'
    err = float(np.max(np.abs(y[..., :x.shape[-2], :x.shape[-1]] - x)))
    if err > max(10 * perr, 1e-9 * max(1.0, float(np.max(np.abs(x))))):
        ck.fail(desc + ': max reconstruction error %.3g (PyWavelets: %.3g)' % (err, perr), replay, known_key=KF if short else None); return 'diff'
    ck.oracle_ok((2, m, J, ncol, nrow, tuple(x.shape)), group='pr2d-per-axis', sample={'cols': ncol, 'rows': nrow, 'mode': gen.MODE_NAME[m], 'J': J, 'shape': list(x.shape), 'max_err': err})
    return None


def unimodular(rng):
    """random 2x2 integer matrix with determinant +-1"""
    m = np.eye(2, dtype=np.int64)
    for _ in range(rng.randint(1, 3)):
        t = rng.randint(-2, 2)
        m = m @ (np.array([[1, t], [0, 1]]) if rng.random() < 0.5 else np.array([[1, 0], [t, 1]]))
    if rng.random() < 0.5:
        m = m @ np.array([[0, 1], [1, 0]])
    return m


def integer_pr_bank(rng):
    """a perfect-reconstruction bank with INTEGER taps of length 2, 4 or 6 that is not a scaled Haar: polyphase
    matrix P(z) = A0 diag(1, z^-1) A1 ... with unimodular integer A_i; the synthesis filters are the exact solution
    of the Lean hypothesis PRBank (checked in integer arithmetic before use).  Returns (h0, h1, g0, g1) or None."""
    stages = rng.choice([0, 1, 1, 2])
    P = [unimodular(rng)]                       # list of coefficient matrices P_m of z^-m
    for _ in range(stages):
        A = unimodular(rng)
        Q = [np.zeros((2, 2), dtype=np.int64) for _ in range(len(P) + 1)]
        for mth, Pm in enumerate(P):            # P(z) * diag(1, z^-1) * A
            Q[mth] += Pm @ np.diag([1, 0]) @ A
            Q[mth + 1] += Pm @ np.diag([0, 1]) @ A
        P = Q
    L = 2 * len(P)
    h0 = np.array([P[j // 2][0, j % 2] for j in range(L)], dtype=np.float64)
    h1 = np.array([P[j // 2][1, j % 2] for j in range(L)], dtype=np.float64)
    # PRBank is linear in (g0, g1)
    rows, rhs = [], []
    for p_ in (0, 1):
        for d in range(-(L - 1), L):
            r = np.zeros(2 * L)
            for a in range(p_, L, 2):
                i = d + L - 1 - a
                if 0 <= i < L:
                    r[i] += h0[a]; r[L + i] += h1[a]
            rows.append(r); rhs.append(1.0 if d == 0 else 0.0)
    A = np.array(rows); b = np.array(rhs)
    sol = np.linalg.lstsq(A, b, rcond=None)[0]
    g = np.round(sol)
    if not np.array_equal(A @ g, b):
        return None
    return h0, h1, g[:L].copy(), g[L:].copy()


def solve_synthesis(h0, h1, off):
    """integer synthesis pair (g0, g1) with  sum_{a = p mod 2} h0[a] g0[d+off-a] + h1[a] g1[d+off-a] = [d == 0]  for both
    parities p and every lag d (off = L-1 is the Lean hypothesis PRBank), or None"""
    L = len(h0)
    rows, rhs = [], []
    for p_ in (0, 1):
        for d in range(-(L - 1), L + 1):
            r = np.zeros(2 * L)
            for a in range(p_, L, 2):
                i = d + off - a
                if 0 <= i < L:
                    r[i] += h0[a]; r[L + i] += h1[a]
            rows.append(r); rhs.append(1.0 if d == 0 else 0.0)
    A = np.array(rows); b = np.array(rhs)
    g = np.round(np.linalg.lstsq(A, b, rcond=None)[0])
    if not np.array_equal(A @ g, b):
        return None
    return g[:L].copy(), g[L:].copy()


def integer_pr_bank_odd(rng, m):
    """an ODD-length integer PR bank: an even-length cascade with one zero tap added at either end of the analysis pair,
    synthesis pair solved exactly for the alignment the library uses in mode m: lag offset L-1 (PRBank) in the padded
    modes, L-2 in periodization (there the delay is 2*(L//2)-1, which differs from L-1 exactly when L is odd).  Both
    alignments were validated on the pinned tree (exact round trips)."""
    bank = integer_pr_bank(rng)
    if bank is None:
        return None
    end = rng.random() < 0.5
    h0 = np.append(bank[0], 0.0) if end else np.insert(bank[0], 0, 0.0)
    h1 = np.append(bank[1], 0.0) if end else np.insert(bank[1], 0, 0.0)
    L = len(h0)
    g = solve_synthesis(h0, h1, L - 2 if gen.MODE_NAME[m] == 'periodization' else L - 1)
    return None if g is None else (h0, h1, g[0], g[1])


def oracle_pr_bank(ck, dims, m, J, bank, x):
    """exact round trip for an integer bank satisfying PRBank (the hypothesis class of the Lean theorems)"""
    h0, h1, g0, g1 = bank
    L = len(h0)
    desc = '%dD PR integer bank h0=%s h1=%s mode=%s J=%d shape=%s' % (dims, h0.astype(int).tolist(), h1.astype(int).tolist(), gen.MODE_NAME[m], J, tuple(x.shape))
    replay = {'oracle': 'pr_bank', 'dims': dims, 'm': m, 'J': J, 'bank': [arr_json(v) for v in bank], 'x': arr_json(x)}
    fop, iop = ('DWT1DForward', 'DWT1DInverse') if dims == 1 else ('DWTForward', 'DWTInverse')
    fw = rt.run_impl(rt.Case('Z', fop, [m, J] + ([2] if dims == 2 else []), [h0, h1, x]), IMPL)
    if isinstance(fw, tuple):
        ck.oracle_ok(('raise', dims, m), nontriv=False, group='forward-raises'); return None
    if dims == 1:
        sizes, _ = level_sizes(x.shape[-1], L, m, J)
        short = per_short_fwd(sizes, L, m) or per_short_inv([(n + 1) // 2 for n in sizes], L, m)
    else:
        sh, _ = level_sizes(x.shape[-2], L, m, J); sw, _ = level_sizes(x.shape[-1], L, m, J)
        short = (per_short_fwd(sh, L, m) or per_short_fwd(sw, L, m) or per_short_inv([(n + 1) // 2 for n in sh], L, m) or per_short_inv([(n + 1) // 2 for n in sw], L, m))
    bw = rt.run_impl(rt.Case('Z', iop, [m] + ([2] if dims == 2 else []), [g0, g1] + list(fw)), IMPL)
    if isinstance(bw, tuple):
        ck.fail(desc + ': inverse raises %s: %s' % (bw[1], bw[2]), replay, known_key=KF if short else None); return 'raise'
    y = bw[0]
    yc = y[..., :x.shape[-1]] if dims == 1 else y[..., :x.shape[-2], :x.shape[-1]]
    if yc.shape != x.shape or not np.array_equal(yc, x):
        ck.fail(desc + ': inverse(forward(x)) != x (exact integer arithmetic)', replay, known_key=KF if short else None); return 'diff'
    ck.oracle_ok(('bank', dims, m, J, L, tuple(x.shape)), group='pr-integer-banks', sample={'h0': h0.tolist(), 'h1': h1.tolist(), 'g0': g0.tolist(), 'g1': g1.tolist(), 'mode': gen.MODE_NAME[m], 'J': J, 'shape': list(x.shape)})
    return None


def prbank_defect(w):
    """largest violation of the polyphase biorthogonality conditions (the hypothesis `PRBank` of the Lean theorem
    WV.C02.pr_zero) by a PyWavelets filter bank"""
    h0, h1, g0, g1 = [np.array(v, dtype=np.float64) for v in w.filter_bank]
    L = len(h0)
    gz = lambda g, i: g[i] if 0 <= i < L else 0.0
    worst = 0.0
    for p in (0, 1):
        for d in range(-(L - 1), L):
            v = sum(h0[a] * gz(g0, d + L - 1 - a) + h1[a] * gz(g1, d + L - 1 - a) for a in range(p, L, 2))
            worst = max(worst, abs(v - (1.0 if d == 0 else 0.0)))
    return worst


def oracle(ck, extended):
    rng = ck.rng
    import pywt
    q = ck.tier == 'quick'
    # deterministic witness of the recorded finding
    rt.guard(ck, oracle_pr, ck, 1, 2, 1, 'db3', np.array([[[1., -2., 3., 0.5]]]))
    # the hypothesis of the general PR theorem, measured on every PyWavelets bank
    names = pywt.wavelist(kind='discrete')
    defects = {n: prbank_defect(pywt.Wavelet(n)) for n in names}
    ck.extra['prbank_defect'] = {'max_over_exact_wavelets': max(v for n, v in defects.items() if n != 'dmey'), 'dmey': defects.get('dmey'),
                                 'note': 'largest violation of the polyphase biorthogonality conditions (hypothesis PRBank of WV.C02.pr_zero); dmey is only approximately PR'}
    for n, v in defects.items():
        if n != 'dmey' and v > 1e-9:
            ck.fail('wavelet %s violates the biorthogonality conditions by %.3g' % (n, v), {'oracle': 'prbank', 'name': n})
    # integer banks satisfying the hypothesis PRBank of the Lean theorems (not Haar-like): exact round trips
    made = 0
    for it in range((40 if q else 400) * (3 if extended else 1)):
        bank = integer_pr_bank(rng)
        if bank is None or max(abs(v) for f in bank for v in f) > 60:
            continue
        made += 1
        L = len(bank[0]); m = rng.choice(gen.MODES5); J = rng.randint(1, 2)
        if it % 2 == 0:
            N = rng.choice([2 * L, 2 * L + 1, L + 1, rng.randint(max(2, L), 24)])
            rt.guard(ck, oracle_pr_bank, ck, 1, m, J, bank, gen.int_tensor(rng, (1, rng.randint(1, 2), N), 4))
        else:
            rt.guard(ck, oracle_pr_bank, ck, 2, m, J, bank, gen.int_tensor(rng, (1, 1, rng.randint(max(2, L), 14), rng.randint(max(2, L), 14)), 4))
    ck.extra['integer_pr_banks_used'] = made
    # odd filter lengths (legal when the wavelet is given as a tuple of arrays), every mode
    made_odd = 0
    for it in range((40 if q else 400) * (3 if extended else 1)):
        m = gen.MODES5[it % len(gen.MODES5)]
        bank = integer_pr_bank_odd(rng, m)
        if bank is None or max(abs(v) for f in bank for v in f) > 60:
            continue
        made_odd += 1
        L = len(bank[0]); J = rng.randint(1, 2)
        if it % 3 != 0:
            N = rng.choice([2 * L, 2 * L + 1, L + 1, rng.randint(max(2, L), 24)])
            rt.guard(ck, oracle_pr_bank, ck, 1, m, J, bank, gen.int_tensor(rng, (1, rng.randint(1, 2), N), 4))
        else:
            rt.guard(ck, oracle_pr_bank, ck, 2, m, J, bank, gen.int_tensor(rng, (1, 1, rng.randint(max(2, L), 14), rng.randint(max(2, L), 14)), 4))
    ck.extra['odd_length_integer_pr_banks_used'] = made_odd
    # sizes above every blocking / tiling threshold (gen.scale_shapes_*), every mode, per-axis pairs of different lengths
    wl = ['db2', 'bior2.4', 'sym5', 'db7', 'db4', 'haar']
    for k, shp in enumerate(gen.scale_shapes_1d(ck.tier)):
        for m in gen.MODES5:
            rt.guard(ck, oracle_pr, ck, 1, m, 1 + (k + m) % 3, wl[(k + m) % len(wl)], gen.float_tensor(ck.nprng, shp))
    for k, shp in enumerate(gen.scale_shapes_2d(ck.tier)):
        for m in gen.MODES5:
            name = wl[(k + m) % len(wl)] if (k + m) % 3 else (wl[k % len(wl)], wl[(k + 3) % len(wl)])
            rt.guard(ck, oracle_pr, ck, 2, m, 1 + (k + m) % 3, name, gen.float_tensor(ck.nprng, shp))
    names = pywt.wavelist(kind='discrete')
    n = (140 if q else 1500) * (3 if extended else 1)
    for it in range(n):
        name = rng.choice(names)
        L = pywt.Wavelet(name).dec_len
        m = rng.choice(gen.MODES5); J = rng.randint(1, 3)
        dyn = rng.choice([1.0, 1.0, 1e3, 1e-2])
        if it % 2 == 0:
            N = max(2, rng.choice([L + rng.randint(-3, 9), 2 * L + 1, rng.randint(2, 48), L * (2 ** J) + rng.randint(0, 3)]))
            rt.guard(ck, oracle_pr, ck, 1, m, J, name, gen.float_tensor(ck.nprng, (rng.randint(1, 2), rng.randint(1, 2), N), dyn))
        else:
            H = max(2, rng.choice([L + rng.randint(-2, 5), rng.randint(2, 28)])); W = max(2, rng.choice([L + rng.randint(-2, 5), rng.randint(2, 28)]))
            if rng.random() < 0.4:
                rt.guard(ck, oracle_pr, ck, 2, m, J, (name, rng.choice(names)), gen.float_tensor(ck.nprng, (1, rng.randint(1, 2), H, W), dyn))
            else:
                rt.guard(ck, oracle_pr, ck, 2, m, J, name, gen.float_tensor(ck.nprng, (1, rng.randint(1, 2), H, W), dyn))


def run(ck):
    std_run(ck, PROP, MODULE, THEOREMS, OPS, 300, 2400, oracle,
            rule='correspondence as C01/C10 on the analysis and synthesis ops; oracle: inverse(forward(x)) on the real modules for random named wavelets out of all 106, all five modes, '
                 'J 1..3, sizes around the filter length and odd sizes, three dynamic ranges; passes when the extent is N or N+1 per axis and the error is <= max(10x PyWavelets own error, 1e-9 scale); '
                 'distinct by (dims, mode, J, wavelet, shape)')


def replay(ck, path):
    rt.setup_torch()
    d = load_replay(path)
    f = d.get('failure', {}).get('replay')
    if not f:
        print('replay file names no failing input: %s' % d.get('broken_obligations'))
        return 1
    if f.get('oracle') == 'pr_bank':
        oracle_pr_bank(ck, f['dims'], f['m'], f['J'], tuple(arr_from(a) for a in f['bank']), arr_from(f['x']))
    elif f.get('oracle') == 'prbank':
        import pywt
        print('defect of the biorthogonality conditions of %s: %.3g' % (f['name'], prbank_defect(pywt.Wavelet(f['name']))))
        ck.fail('wavelet %s violates the biorthogonality conditions' % f['name'], f) if prbank_defect(pywt.Wavelet(f['name'])) > 1e-9 else None
    elif f.get('oracle') == 'pr2':
        oracle_pr2(ck, f['m'], f['J'], f['ncol'], f['nrow'], arr_from(f['x']))
    else:
        oracle_pr(ck, f['dims'], f['m'], f['J'], tuple(f['name']) if isinstance(f['name'], list) else f['name'], arr_from(f['x']))
    for fl in ck.failures:
        print('REPLAY-FAILS: ' + fl['desc'])
    for k, (t, n) in ck.known_hits.items():
        print('REPLAY-KNOWN-FINDING: ' + t)
    if not ck.failures and not ck.known_hits:
        print('REPLAY-PASSES')
    return 1 if ck.failures else 0
