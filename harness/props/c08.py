"""C08 — scattering layers compute the defined DTCWT scattering coefficients."""
import numpy as np
from .. import rt, gen, proto
from .. import oracle_dtcwt as OD
from ..dtcwt_common import TRUSTED, same, arr_json, arr_from, load_replay, dt_filters
from ..impl_scat import IMPL

PROP = 'C08'
MODULE = 'WaveletsVerif.Properties.C08'
THEOREMS = ['WV.C08.mag_nonneg', 'WV.C08.mag3_nonneg', 'WV.C08.scatJ1_channels', 'WV.C08.scatJ1_raises_odd', 'WV.C08.scatJ2_raises_unless_mult8',
            'WV.C08P.ScatLayer_eq_spec',
            'WV.C08Q.refLevel1_bands', 'WV.C08Q.scatJ2_eq_spec', 'WV.C08Q.pad8Img_rect', 'WV.C08Q.ScatLayerj2_eq_spec', 'WV.C01Z.pad8_gen', 'WV.C04Z.scat_sizes_gen', 'WV.C04Z.scatJ1_channels_gen', 'WV.C08R.scatJ2_colour_eq_spec', 'WV.C08R.ScatLayerj2_colour_eq_spec', 'WV.C08B.fwdJ1Rot_eq_ref', 'WV.C08B.fwdJ2Rot_eq_ref', 'WV.C08B.ScatLayer_rot_eq_spec', 'WV.C08B.refLevel1Rot_bands', 'WV.C08B.scatJ2_rot_eq_spec', 'WV.C08B.ScatLayerj2_rot_eq_spec', 'WV.C08B.scatJ2_rot_colour_eq_spec', 'WV.C08B.ScatLayerj2_rot_colour_eq_spec', 'WV.C10Z.scat_glue_gen', 'WV.C10Z.forward_keeps_no_state_gen']
KF = 'C08-scatj2-size-2'
FAMS = [('near_sym_a', 'qshift_a'), ('near_sym_b', 'qshift_b'), ('near_sym_b_bp', 'qshift_b_bp'), ('antonini', 'qshift_c'), ('legall', 'qshift_06')]


def pool(a):
    return 0.25 * (a[0::2, 0::2] + a[0::2, 1::2] + a[1::2, 0::2] + a[1::2, 1::2])


def extend_even(x):
    if x.shape[-2] % 2: x = np.concatenate([x, x[..., -1:, :]], axis=-2)
    if x.shape[-1] % 2: x = np.concatenate([x, x[..., :, -1:]], axis=-1)
    return x


def pad8(x):
    for ax in (-2, -1):
        n = x.shape[ax]; rem = n % 8
        if rem:
            before = (8 - rem) // 2; after = (9 - rem) // 2
            idx = [slice(None)] * x.ndim
            a = idx.copy(); a[ax] = slice(0, before)
            b = idx.copy(); b[ax] = slice(n - after, n)
            x = np.concatenate([x[tuple(a)], x, x[tuple(b)]], axis=ax)
    return x


def ref_level1(img, biort):
    low, highs = OD.forward(img, biort, 'qshift_a', 1)
    return low, highs[0]           # (H,W), (6,h,w) complex


def mag(z, b):
    return np.sqrt(z.real ** 2 + z.imag ** 2 + b * b) - b


def spec_scat1(x, biort, b, colour):
    x = extend_even(x)
    N, C = x.shape[:2]
    out = []
    for n in range(N):
        lows, hs = zip(*[ref_level1(x[n, c], biort) for c in range(C)])
        ll = [pool(l) for l in lows]
        if colour:
            r = [np.sqrt(sum(h[o].real ** 2 + h[o].imag ** 2 for h in hs) + b * b) - b for o in range(6)]
            out.append(np.stack(ll + r))
        else:
            out.append(np.stack(ll + [mag(hs[c][o], b) for o in range(6) for c in range(C)]))
    return np.stack(out)


def spec_scat2(x, biort, qshift, b, colour):
    x = pad8(x)
    N, C = x.shape[:2]
    out = []
    for n in range(N):
        p2 = [OD.forward(x[n, c], biort, qshift, 2) for c in range(C)]     # (low, [h1, h2])
        s0 = [pool(p[0]) for p in p2]
        if colour:
            u1 = [np.sqrt(sum(p[1][0][o].real ** 2 + p[1][0][o].imag ** 2 for p in p2) + b * b) - b for o in range(6)]
            s1j2 = [np.sqrt(sum(p[1][1][o].real ** 2 + p[1][1][o].imag ** 2 for p in p2) + b * b) - b for o in range(6)]
            second = [ref_level1(u, biort) for u in u1]
            s1j1 = [pool(l) for l, _ in second]
            s2 = [mag(second[o1][1][o2], b) for o2 in range(6) for o1 in range(6)]
            out.append(np.stack(s0 + s1j1 + s1j2 + s2))
        else:
            u1 = [[mag(p2[c][1][0][o], b) for c in range(C)] for o in range(6)]          # [o1][c]
            s1j2 = [mag(p2[c][1][1][o], b) for o in range(6) for c in range(C)]
            second = [[ref_level1(u1[o1][c], biort) for c in range(C)] for o1 in range(6)]
            s1j1 = [pool(second[o1][c][0]) for o1 in range(6) for c in range(C)]
            s2 = [mag(second[o1][c][1][o2], b) for o2 in range(6) for o1 in range(6) for c in range(C)]
            out.append(np.stack(s0 + s1j1 + s1j2 + s2))
    return np.stack(out)


def oracle_layer(ck, order, biort, qshift, b, colour, x, force=None):
    import torch
    from pytorch_wavelets import ScatLayer, ScatLayerj2
    from ..impl_dwt import T, N as NP
    desc = 'ScatLayer%s biort=%s%s magbias=%g colour=%s shape=%s' % ('j2' if order == 2 else '', biort, (' qshift=' + qshift) if order == 2 else '', b, bool(colour), tuple(x.shape))
    replay = {'oracle': 'layer', 'order': order, 'biort': biort, 'qshift': qshift, 'b': b, 'colour': colour, 'x': arr_json(x)}
    H, W = x.shape[-2:]
    kk = KF if (order == 2 and (H == 2 or W == 2)) else None
    try:
        from ..impl_scat import scat_module
        mod = scat_module(1, x, force, biort=biort, magbias=b, combine_colour=bool(colour)) if order == 1 else \
            scat_module(2, x, force, biort=biort, qshift=qshift, magbias=b, combine_colour=bool(colour))
        mod = mod.double()
        # parameters were created in float32 before the default dtype is consulted? they follow get_default_dtype (float64 here)
        y = NP(mod(T(x)))
    except Exception as e:
        ck.fail(desc + ': raises %s: %s' % (type(e).__name__, str(e)[:100]), replay, known_key=kk); return 'raise'
    ref = spec_scat1(x, biort, b, colour) if order == 1 else spec_scat2(x, biort, qshift, b, colour)
    C = x.shape[1]
    nb = (7 if order == 1 else 49)
    exp_ch = (3 + 6 if order == 1 else 3 + 6 + 6 + 36) if colour else nb * C
    exp_hw = ((H + 1) // 2, (W + 1) // 2) if order == 1 else (((H + 7) // 8 * 8) // 4, ((W + 7) // 8 * 8) // 4)
    if tuple(y.shape) != (x.shape[0], exp_ch) + exp_hw:
        ck.fail(desc + ': output shape %s, documented %s' % (tuple(y.shape), (x.shape[0], exp_ch) + exp_hw), replay); return 'shape'
    ok, why = same([y], [ref], 1e-9)
    if not ok:
        ck.fail(desc + ': differs from reference DTCWT + formulas: ' + why, replay); return 'diff'
    # magnitude channels: everything after the pooled low-passes; in the second-order layer the six bands after
    # the low-pass are *pooled low-passes of first-order magnitudes* (a linear filter output, may be negative)
    nl = (3 if colour else C)
    if order == 2:
        nl += 6 * (1 if colour else C)
    if (y[:, nl:] < -1e-12 * max(1.0, abs(b))).any():
        ck.fail(desc + ': a magnitude channel is negative (min %.3g)' % float(y[:, nl:].min()), replay); return 'neg'
    ck.oracle_ok((order, biort, qshift, b, colour, tuple(x.shape)), group='order%d' % order,
                 sample={'what': desc, 'out_shape': list(y.shape), 'min_mag': float(y[:, nl:].min())})
    return None


def corr_cases(ck, n):
    rng = ck.rng; npr = ck.nprng
    for it in range(n):
        nb = rng.randint(1, 2); colour = rng.choice([0, 0, 1]); c = 3 if colour else rng.randint(1, 2)
        sym = rng.choice([1, 1, 1, 0]); rot = rng.choice([0, 0, 1])
        Lo = rng.choice([3, 5, 7, 13]); L1 = rng.choice([3, 5, 7, 19])
        h0 = gen.int_filter(rng, Lo) / 4; h1 = gen.int_filter(rng, L1) / 4; h2 = gen.int_filter(rng, L1) / 4
        b = np.array([rng.choice([0.0, 1e-2, 1.0])])
        if it % 2 == 0:
            x = npr.standard_normal((nb, c, rng.randint(2, 14), rng.randint(2, 14))) * rng.choice([1.0, 100.0, 0.0])
            yield rt.Case('F', 'ScatLayer', [sym, colour, rot], [h0, h1] + ([h2] if rot else []) + [b, x], {'order': 1, 'colour': colour, 'rot': rot})
        else:
            m = 2 * rng.randint(1, 6)
            q = [gen.int_filter(rng, m) / 4 for _ in range(6)]
            x = npr.standard_normal((nb, c, rng.choice([8, 16, 3, 5, 10, 12, 2, 7]), rng.choice([8, 16, 4, 7, 9, 2])))
            f = [h0, h1] + ([h2] if rot else []) + q[:4] + (q[4:] if rot else [])
            yield rt.Case('F', 'ScatLayerj2', [sym, colour, rot], f + [b, x], {'order': 2, 'colour': colour, 'rot': rot})


def oracle(ck, extended):
    rng = ck.rng; npr = ck.nprng
    q = ck.tier == 'quick'
    # deterministic witness of the recorded finding
    rt.guard(ck, oracle_layer, ck, 2, 'near_sym_a', 'qshift_a', 1e-2, 0, npr.standard_normal((1, 1, 2, 8)))
    for (order, qs_, force) in [(2, 'qshift_a', 'alt'), (2, 'qshift_06', 'alt'), (1, 'qshift_a', 'deferred'), (2, 'qshift_a', 'deferred')]:
        rt.guard(ck, oracle_layer, ck, order, 'near_sym_a', qs_, 1e-2, 0, npr.standard_normal((1, 2, 16, 8)), force)
    # the channel axis at its extremes: counts beyond every power of two a blocked / chunked implementation would use
    for (order, Cn) in [(1, 33), (2, 33), (2, 40), (1, 65)] + ([] if q else [(2, 65), (1, 129), (2, 130)]):
        rt.guard(ck, oracle_layer, ck, order, 'near_sym_a', 'qshift_a', 1e-2, 0, npr.standard_normal((1, Cn, 8, 8)))
    # images above every blocking / banding threshold (tall, wide, big both ways) with EVERY pairing of a level-1 family with a
    # q-shift family (a short level-1 filter next to a long q-shift filter and the other way round), both layers
    plain_b = ['near_sym_a', 'near_sym_b', 'antonini', 'legall']; plain_q = ['qshift_06', 'qshift_a', 'qshift_b', 'qshift_c', 'qshift_d']
    cross = [(b_, q_) for b_ in plain_b for q_ in plain_q] + [('near_sym_b_bp', 'qshift_b_bp')]
    tall = [(1, 1, 264, 16), (1, 2, 520, 8), (1, 1, 8, 520), (1, 1, 300, 24), (1, 1, 272, 264)] + ([] if q else [(1, 1, 1031, 8), (1, 3, 513, 16), (1, 1, 16, 1040), (2, 2, 600, 24)])
    for k, (b_, q_) in enumerate(cross):
        if q and k % 2:
            continue
        shp = tall[k % len(tall)]
        rt.guard(ck, oracle_layer, ck, 2, b_, q_, 1e-2, 0, npr.standard_normal(shp))
        rt.guard(ck, oracle_layer, ck, 1, b_, q_, 1e-2, 1 if shp[1] == 3 else 0, npr.standard_normal(tall[(k + 2) % len(tall)] if shp[1] != 3 else shp))
    n = (14 if q else 120) * (2 if extended else 1)
    for it in range(n):
        biort, qshift = rng.choice(FAMS)
        b = rng.choice([0.0, 1e-2, 1.0]); colour = rng.choice([0, 0, 1]); C = 3 if colour else rng.randint(1, 2)
        kind = rng.choice(['normal', 'normal', 'zero', 'sparse', 'huge'])
        order = 1 + it % 2
        H = rng.randint(3, 20); W = rng.randint(3, 20)
        if order == 2 and rng.random() < 0.5:
            H = 8 * rng.randint(1, 3); W = 8 * rng.randint(1, 3)
        x = npr.standard_normal((rng.randint(1, 2), C, H, W))
        if kind == 'zero': x[:] = 0
        if kind == 'sparse': x[np.abs(x) < 1.5] = 0
        if kind == 'huge': x *= 1e6
        if biort in ('antonini', 'legall') and order == 2 and False:
            continue
        rt.guard(ck, oracle_layer, ck, order, biort, qshift, b, colour, x)


def spec_check_rot(ck):
    """Lean reference levels with band-pass diagonal filters (Spec.refLevel1Rot / refLevel2Rot, what C08B refines to) <->
    dtcwt.numpy.Transform2d with six-filter biort / twelve-filter qshift sets: exact over Q(sqrt 2) on integer filters, and at
    1e-9 on the shipped band-pass tables"""
    rng = ck.rng
    lines, exp = [], []
    for it in range(16 if ck.tier == 'quick' else 120):
        if it % 4 == 0:
            from pytorch_wavelets.dtcwt.coeffs import level1, qshift as _q
            import dtcwt.coeffs as DC
            bt = DC.biort('near_sym_b_bp'); qt = DC.qshift('qshift_b_bp'); kind = 'F'
            x = gen.float_tensor(ck.nprng, (4 * rng.randint(1, 5), 4 * rng.randint(1, 5)))
        else:
            b4 = OD.int_biort(rng, gen); q8 = OD.int_qshift(rng, gen)
            L2 = rng.choice([3, 5, 7, 9]); h2o = gen.int_filter(rng, L2); g2o = gen.int_filter(rng, L2)
            m2 = 2 * rng.randint(1, 6)
            def pair(sign, L):
                while True:
                    a_ = gen.int_filter(rng, L); b_ = gen.int_filter(rng, L)
                    if np.sign(np.sum(a_ * b_)) == sign:
                        return a_, b_
            h2a, h2b = pair(-1, m2); g2a, g2b = pair(-1, m2)
            bt = tuple(b4) + (h2o, g2o); qt = tuple(q8) + (h2a, h2b, g2a, g2b); kind = 'Q'
            x = gen.int_tensor(rng, (4 * rng.randint(1, 4), 4 * rng.randint(1, 4)), amp=3)
        h0o, g0o, h1o, g1o, h2o, g2o = [np.ravel(v) for v in bt]
        h0a, h0b, g0a, g0b, h1a, h1b, g1a, g1b, h2a, h2b, g2a, g2b = [np.ravel(v) for v in qt]
        import dtcwt
        OD._linear_colifilt()
        p = dtcwt.Transform2d(biort=bt, qshift=qt).forward(np.asarray(x, dtype=np.float64), nlevels=2, include_scale=True)
        lines.append(proto.to_line(kind, 'spec_levels_rot', [], [h0o, h1o, h2o, h0a, h0b, h1a, h1b, h2a, h2b, x]))
        exp.append([p.scales[0], OD.to_canon(np.moveaxis(p.highpasses[0], -1, 0)), p.scales[1], OD.to_canon(np.moveaxis(p.highpasses[1], -1, 0))])
    outs = proto.run_driver(lines)
    bad = []
    for ln, o, e in zip(lines, outs, exp):
        kind = ln[0]
        if o == 'raise' or len(o) != len(e) or not all(proto.equal_exact(kind, ee, oo)[0] for ee, oo in zip(e, o)):
            bad.append(ln[:200])
    ck.extra['spec_rot_vs_reference'] = {'evaluations': len(lines), 'mismatches': len(bad)}
    if bad:
        raise RuntimeError('Lean band-pass reference levels disagree with the numpy dtcwt package (machinery error, not a verdict): ' + bad[0])


def run(ck):
    from ..translate import regen_all
    rt.setup_torch()
    q = ck.tier == 'quick'
    ck.trusted = TRUSTED + ['scattering correspondence is a Float tier: the Lean model runs at IEEE double with its own summation order; outputs compared to 1e-9 relative',
                            'mag_nonneg is a theorem over the reals; float non-negativity is measured']
    ck.extra['module'] = MODULE
    ck.extra['rule'] = ('correspondence (Float tier, 1e-9): ScatLayer and ScatLayerj2 incl. the _rot variants, colour on/off, three biases, odd and non-multiple-of-8 sizes, zero / huge inputs, '
                        'random dyadic filters; oracle: the real layers vs numpy dtcwt + sqrt(re^2+im^2+b^2)-b + 2x2 pooling + band-major packing, five filter families incl. the band-pass '
                        'variants, documented output shapes, non-negativity; distinct by (order, family, bias, colour, shape)')
    if not getattr(ck, 'no_lean', False):
        ck.lean = rt.lean_check(PROP, MODULE, THEOREMS, regen=regen_all)
    st = rt.correspond('impl-model(float)', corr_cases(ck, 80 if q else 800), IMPL)
    ck.corr.append(st)
    spec_check_rot(ck)
    oracle(ck, False)
    if ((ck.lean is not None and not ck.lean.ok) or st.mismatches) and not ck.failures:
        oracle(ck, True)


def replay(ck, path):
    rt.setup_torch()
    d = load_replay(path)
    f = d.get('failure', {}).get('replay')
    if not f:
        print('replay file names no failing input: %s' % d.get('broken_obligations'))
        return 1
    oracle_layer(ck, f['order'], f['biort'], f['qshift'], f['b'], f['colour'], arr_from(f['x']))
    for fl in ck.failures:
        print('REPLAY-FAILS: ' + fl['desc'])
    for k, (t, n) in ck.known_hits.items():
        print('REPLAY-KNOWN-FINDING: ' + t)
    if not ck.failures and not ck.known_hits:
        print('REPLAY-PASSES')
    return 1 if ck.failures else 0
