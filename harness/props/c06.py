"""C06 — DTCWT back-propagation is the exact adjoint."""
import numpy as np
import torch
from .. import rt, gen, proto
from .. import oracle_dtcwt as OD
from ..dtcwt_common import *
from ..impl_dtcwt import IMPL
from ..impl_dwt import T, N as NP

PROP = 'C06'
MODULE = 'WaveletsVerif.Properties.C06'
THEOREMS = ['WV.C06.q2c_c2q_adjoint', 'WV.C06.FWD_J1_backward_def', 'WV.C06.FWD_J2PLUS_backward_def', 'WV.C06.colfilter_self_adjoint', 'WV.C06.Kf_symm', 'WV.C06.alongH_self_adjoint', 'WV.C06.fwdJ1_backward_adjoint_rect', 'WV.C06.fwdJ1_backward_adjoint', 'WV.C06.INV_J1_backward_adjoint',
            'WV.C06Q.transpose_tap', 'WV.C06Q.lineD_taps', 'WV.C06Q.lineE_taps', 'WV.C06Q.line_transpose', 'WV.C06Q.coldfilt_colifilt_adjoint',
            'WV.C06J.loop_adjoint', 'WV.C06J.DTCWT_backward_adjoint', 'WV.C06K.invLoop_adjoint', 'WV.C06K.DTCWTInverse_backward_adjoint', 'WV.C06Q.fwdJ2_backward_adjoint_rect', 'WV.C06Q.fwdJ2_backward_adjoint', 'WV.C06Q.INV_J2PLUS_backward_adjoint', 'WV.C06L.gather2_adjoint', 'WV.C06L.extendMult4_get2', 'WV.C06L.extendEven_get2', 'WV.C06L.ext4_adjoint', 'WV.C06L.ext2_adjoint', 'WV.C06L.loop_adjoint_ext', 'WV.C06L.DTCWT_backward_adjoint_ext', 'WV.C06M.cropToHighs_get2', 'WV.C06M.crop_adjoint', 'WV.C06M.invLoop_adjoint_ext', 'WV.C06M.DTCWTInverse_backward_adjoint_ext', 'WV.C10Z.dtcwt_glue_gen']
OPS = ['FWD_J1_bwd', 'FWD_J2PLUS_bwd', 'INV_J1_bwd', 'INV_J2PLUS_bwd', 'fwd_j1', 'inv_j1', 'fwd_j2plus', 'inv_j2plus']


def sym_filter(rng, L):
    """odd-length symmetric integer filter"""
    half = [rng.randint(-3, 3) for _ in range(L // 2)]
    while half and half[0] == 0:
        half[0] = rng.randint(-3, 3)
    mid = rng.randint(1, 4)
    return np.array(half + [mid] + half[::-1], dtype=np.float64)


def structured_filters(rng):
    """integer filters obeying the identities the hand-written gradients rely on:
    level-1 filters symmetric; tree b the reverse of tree a"""
    Lo = rng.choice([3, 5, 7, 9, 13]); L1 = rng.choice([3, 5, 7, 9])
    m = 2 * rng.randint(1, 8)
    a0 = gen.int_filter(rng, m); a1 = gen.int_filter(rng, m)
    return [sym_filter(rng, Lo), sym_filter(rng, L1), a0, a0[::-1].copy(), a1, a1[::-1].copy()]


def table_filters(b, s, synthesis=False):
    bt, qt = OD.lib_tables(b, s)
    h0o, g0o, h1o, g1o = [np.ravel(v) for v in bt]
    h0a, h0b, g0a, g0b, h1a, h1b, g1a, g1b = [np.ravel(v) for v in qt]
    return [g0o, g1o, g0a, g0b, g1a, g1b] if synthesis else [h0o, h1o, h0a, h0b, h1a, h1b]


def flat(ts):
    return torch.cat([t.reshape(-1) for t in ts if t is not None and t.dim() > 0])


def oracle_fwd_grad(ck, filt, J, shape, o, ri, skm, inm, named, tol, force=None, chan=1):
    from pytorch_wavelets.dtcwt.transform2d import DTCWTForward as M
    rng = ck.rng
    bits = lambda mask: [bool((mask >> j) & 1) for j in range(J)]
    from ..impl_dtcwt import _module
    mod = _module(M, (filt[0], filt[1]), tuple(filt[2:]), np.concatenate([np.ravel(f) for f in filt] + [np.array(shape, dtype=float)]), force,
                  J=J, skip_hps=bits(skm), include_scale=bits(inm), o_dim=o, ri_dim=ri)
    desc = ('[module state adopted: %s] ' % force if force else '') + 'DTCWTForward gradient J=%d shape=%s layout=(%d,%d) skip=%s include_scale=%s filters=%s' % (J, tuple(shape), o, ri, bin(skm), bin(inm), named)
    replay = {'oracle': 'fwd_grad', 'filt': [arr_json(f) for f in filt], 'J': J, 'shape': list(shape), 'o': o, 'ri': ri, 'skm': skm, 'inm': inm, 'named': named, 'tol': tol, 'force': force, 'chan': chan}

    def outs_of(x):
        yl, yh = mod(x)
        yl = list(yl) if isinstance(yl, (list, tuple)) else [yl]
        return [t for t in yl + list(yh) if t.dim() > 0]
    n_in = chan * int(np.prod(shape))
    with torch.no_grad():
        cols = []
        for k in range(n_in):
            e = torch.zeros(n_in); e[k] = 1
            cols.append(flat(outs_of(e.reshape(1, chan, *shape))))
        Jm = torch.stack(cols)
    x = T(gen.int_tensor(rng, (1, chan) + tuple(shape), 3)).requires_grad_(True)
    outs = outs_of(x)
    from ..gradcheck import pull_variants
    err = 0.0
    bad2 = []

    def second(idx, us, jv):
        # d/dg <u, J^T g> = J u
        want2 = Jm.T @ us[0].reshape(-1)
        e2 = float((flat(jv) - want2).abs().max())
        if not (e2 <= tol * max(1.0, float(want2.abs().max()))):
            bad2.append('the pull-back differentiated once more: |d<u, J^T g>/dg - J u| = %.3g' % e2)
    try:
        for label, eff, grads in pull_variants(rng, outs, [x], lambda t: T(gen.int_tensor(rng, tuple(t.shape), 3)), second=second):
            if bad2:
                ck.fail(desc + ' [%s]' % bad2[0], replay); return 'diff2'
            g = grads[0] if grads[0] is not None else torch.zeros_like(x)
            want = Jm @ flat(eff)
            e1 = float((g.reshape(-1) - want).abs().max())
            err = max(err, e1)
            if not (e1 <= tol * max(1.0, float(want.abs().max()))):
                ck.fail(desc + ' [%s]: |grad - J^T g| = %.3g' % (label, e1), replay); return 'diff'
    except Exception as e:
        ck.fail(desc + ': backward raises %s: %s' % (type(e).__name__, str(e)[:120]), replay); return 'raise'
    ck.oracle_ok(('fwd', J, tuple(shape), o, ri, skm, inm, named), group='fwd-grad',
                 sample={'what': 'autograd(DTCWTForward) == J^T g', 'J': J, 'shape': list(shape), 'layout': [o, ri], 'skip': bin(skm), 'include_scale': bin(inm), 'filters': named, 'err': err})
    return None


def oracle_inv_grad(ck, filt, J, H, W, o, ri, mask, named, tol, force=None):
    """requires_grad subset `mask` (bit 0 low, bit j level j) of the inverse's arguments"""
    from pytorch_wavelets.dtcwt.transform2d import DTCWTInverse as M
    rng = ck.rng
    from ..impl_dtcwt import _module
    mod = _module(M, (filt[0], filt[1]), tuple(filt[2:]), np.concatenate([np.ravel(f) for f in filt] + [np.array([H, W, J], dtype=float)]), force, o_dim=o, ri_dim=ri)
    (lh, lw), hsz = pyramid_shapes(H, W, J)
    ins = [T(gen.int_tensor(rng, (1, 1, lh, lw), 3))] + [T(canon_to_layout(gen.int_tensor(rng, (1, 1, 6, a, b, 2), 3), o, ri).copy()) for a, b in hsz]
    for i, t in enumerate(ins):
        if (mask >> i) & 1:
            t.requires_grad_(True)
    desc = ('[module state adopted: %s] ' % force if force else '') + 'DTCWTInverse gradient J=%d image=%dx%d layout=(%d,%d) requires_grad=%s filters=%s' % (J, H, W, o, ri, bin(mask), named)
    replay = {'oracle': 'inv_grad', 'filt': [arr_json(f) for f in filt], 'J': J, 'H': H, 'W': W, 'o': o, 'ri': ri, 'mask': mask, 'named': named, 'tol': tol, 'force': force}
    y = mod((ins[0], ins[1:]))
    need = [t for t in ins if t.requires_grad]
    from ..gradcheck import pull_variants
    blocks = {}
    with torch.no_grad():
        for i, t in enumerate(ins):
            if not t.requires_grad:
                continue
            base = [torch.zeros(tuple(u.shape), dtype=u.dtype) for u in ins]
            rows = []
            for k in range(t.numel()):
                base[i].reshape(-1)[k] = 1
                rows.append(mod((base[0], base[1:])).reshape(-1).clone())
                base[i].reshape(-1)[k] = 0
            blocks[i] = torch.stack(rows)
    worst = 0.0
    bad2 = []
    req = [i for i, t in enumerate(ins) if t.requires_grad]

    def second(idx, us, jv):
        want2 = sum(blocks[req[i]].T @ u.reshape(-1) for i, u in zip(idx, us))
        e2 = float((jv[0].reshape(-1) - want2).abs().max())
        if not (e2 <= tol * max(1.0, float(want2.abs().max()))):
            bad2.append('the pull-back differentiated once more: |d<u, J^T g>/dg - J u| = %.3g' % e2)
    try:
        for label, eff, grads in pull_variants(rng, [y], need, lambda t: T(gen.int_tensor(rng, tuple(t.shape), 3)), repeats=3, second=second):
            if bad2:
                ck.fail(desc + ' [%s]' % bad2[0], replay); return 'diff2'
            it = iter(grads)
            for i, t in enumerate(ins):
                if not t.requires_grad:
                    continue
                gi = next(it)
                if gi is None:
                    ck.fail(desc + ' [%s]: argument %d requires grad but received None' % (label, i), replay); return 'none'
                want = blocks[i] @ eff[0].reshape(-1)
                err = float((gi.reshape(-1) - want).abs().max())
                worst = max(worst, err)
                if not (err <= tol * max(1.0, float(want.abs().max()))):
                    ck.fail(desc + ' [%s]: argument %d |grad - J^T g| = %.3g' % (label, i, err), replay); return 'diff'
    except Exception as e:
        ck.fail(desc + ': backward raises %s: %s' % (type(e).__name__, str(e)[:120]), replay); return 'raise'
    ck.oracle_ok(('inv', J, H, W, o, ri, mask, named), group='inv-grad',
                 sample={'what': 'autograd(DTCWTInverse) == J^T g for every argument requiring grad', 'J': J, 'image': [H, W], 'layout': [o, ri], 'mask': bin(mask), 'filters': named, 'err': worst})
    return None


def oracle_dot(ck, ff, fi, J, shape, o, ri, named, tol):
    """sizes at which the Jacobian cannot be assembled: both transforms are linear, so per (batch, channel) slice
    <T x, g> = <x, grad> for DTCWTForward and <T^-1 P, g> = <P, grad> for DTCWTInverse.  shape = (N, C, H, W)."""
    from pytorch_wavelets.dtcwt.transform2d import DTCWTForward as MF, DTCWTInverse as MI
    from ..impl_dtcwt import _module
    rng = ck.rng
    desc = 'DTCWT gradient, adjoint identity per slice, J=%d shape=%s layout=(%d,%d) filters=%s' % (J, tuple(shape), o, ri, named)
    replay = {'oracle': 'dot', 'ff': [arr_json(f) for f in ff], 'fi': [arr_json(f) for f in fi], 'J': J, 'shape': list(shape), 'o': o, 'ri': ri, 'named': named, 'tol': tol}
    key = np.concatenate([np.ravel(f) for f in ff] + [np.array(shape, dtype=float)])

    def per_slice(t, u, lay):
        an, ac = (0, 1) if (lay is None or t.dim() != 6) else __import__('harness.props.c07', fromlist=['nc_axes']).nc_axes(t.detach().numpy(), lay)
        p = (t * u).movedim((an, ac), (0, 1))
        return p.reshape(p.shape[0], p.shape[1], -1).sum(-1)
    try:
        fwd = _module(MF, (ff[0], ff[1]), tuple(ff[2:]), key, None, J=J, o_dim=o, ri_dim=ri)
        x = T(gen.int_tensor(rng, tuple(shape), 3)).requires_grad_(True)
        yl, yh = fwd(x)
        outs = [yl] + list(yh)
        cots = [T(gen.int_tensor(rng, tuple(t.shape), 3)) for t in outs]
        (gx,) = torch.autograd.grad(outs, [x], cots)
        lhs = sum(per_slice(t.detach(), c, (o, ri)) for t, c in zip(outs, cots)); rhs = per_slice(x.detach(), gx, None)
        e = float((lhs - rhs).abs().max())
        if not (e <= tol * max(1.0, float(lhs.abs().max()))):
            n0, c0 = [int(v) for v in torch.nonzero((lhs - rhs).abs() == (lhs - rhs).abs().max())[0]]
            ck.fail(desc + ': DTCWTForward, slice (%d,%d): <T x, g> = %.12g but <x, grad> = %.12g' % (n0, c0, float(lhs[n0, c0]), float(rhs[n0, c0])), replay); return 'diff'
        inv = _module(MI, (fi[0], fi[1]), tuple(fi[2:]), key, None, o_dim=o, ri_dim=ri)
        ps = [T(gen.int_tensor(rng, tuple(t.shape), 3)).requires_grad_(True) for t in outs]
        y = inv((ps[0], ps[1:]))
        g = T(gen.int_tensor(rng, tuple(y.shape), 3))
        gs = torch.autograd.grad([y], ps, [g])
        lhs = per_slice(y.detach(), g, None); rhs = sum(per_slice(p.detach(), gp, (o, ri)) for p, gp in zip(ps, gs))
        e = float((lhs - rhs).abs().max())
        if not (e <= tol * max(1.0, float(lhs.abs().max()))):
            n0, c0 = [int(v) for v in torch.nonzero((lhs - rhs).abs() == (lhs - rhs).abs().max())[0]]
            ck.fail(desc + ': DTCWTInverse, slice (%d,%d): <T^-1 P, g> = %.12g but <P, grad> = %.12g' % (n0, c0, float(lhs[n0, c0]), float(rhs[n0, c0])), replay); return 'diff'
    except Exception as ex:
        ck.fail(desc + ': raises %s: %s' % (type(ex).__name__, str(ex)[:120]), replay); return 'raise'
    ck.oracle_ok(('dot', J, tuple(shape), o, ri, named), group='adjoint-identity', sample={'what': desc})
    return None


def oracle_quad_special(ck, shape):
    """`q2c` and `c2q` carry no filters: every output is a sum or difference of TWO entries of the quad.  An output that a finite change
    of one input entry leaves bit-identical does not read that entry, so a non-finite value there must leave it bit-identical too
    (an implementation that multiplies by structural zeros shows `0 * inf`).  These two are the only arithmetic of the hand-written
    backward passes besides the filters."""
    import torch
    from pytorch_wavelets.dtcwt import lowlevel as DL
    rng = ck.rng
    h, w = shape
    desc = 'q2c / c2q on %dx%d quads' % (h, w)
    replay = {'oracle': 'quad-special', 'shape': [h, w]}

    def flat(o):
        acc = []
        def rec(v):
            if isinstance(v, torch.Tensor): acc.append(v.detach().numpy().copy())
            else:
                for u in v: rec(u)
        rec(o); return acc
    y = T(gen.float_tensor(ck.nprng, (1, 2, 2 * h, 2 * w)))
    ws = [T(gen.float_tensor(ck.nprng, (1, 2, h, w))) for _ in range(4)]
    cases = [('q2c', lambda t: DL.q2c(t), y)] + [('c2q (input %d)' % k, (lambda t, k=k: _c2q(DL, ws, k, t)), ws[k]) for k in range(4)]
    for name, f, base_in in cases:
        with torch.no_grad():
            y0 = flat(f(base_in))
            for _ in range(6):
                idx = tuple(rng.randrange(d) for d in base_in.shape)
                t1 = base_in.clone(); t1[idx] += 3.0
                yf = flat(f(t1))
                for val in (float('nan'), float('inf')):
                    t2 = base_in.clone(); t2[idx] = val
                    yn = flat(f(t2))
                    for k, (a, b, c) in enumerate(zip(y0, yf, yn)):
                        untouched = (a == b)
                        leak = untouched & ~((a == c) | (np.isnan(a) & np.isnan(c)))
                        if leak.any():
                            j = tuple(int(v[0]) for v in np.nonzero(leak))
                            ck.fail(desc + ': %s with %r at input entry %s: output %d at %s becomes %r although a finite change of that entry leaves it bit-identical (%r) [%d such outputs]' % (
                                name, val, idx, k, j, float(c[j]), float(a[j]), int(leak.sum())), replay)
                            return 'leak'
    ck.oracle_ok(('quad-special', h, w), group='quad-special', sample={'what': desc})
    return None


def _c2q(DL, ws, k, t):
    v = [t if i == k else ws[i] for i in range(4)]
    return DL.c2q((v[0], v[1]), (v[2], v[3]))


def oracle(ck, extended):
    rng = ck.rng
    q = ck.tier == 'quick'
    for shp in ((2, 3), (4, 4)):
        rt.guard(ck, oracle_quad_special, ck, shp)
    pairs = [(b, s) for b in OD.BIORTS for s in OD.QSHIFTS]
    # sizes above every blocking / tiling / chunking threshold (gen.scale_shapes_2d): the adjoint identity per slice for both
    # modules, every level-1 family in turn, several layouts
    for k, shp in enumerate(gen.scale_shapes_2d(ck.tier)):
        if q and k % 2 and shp[0] * shp[1] == 1:
            continue
        b, s = OD.BIORTS[k % len(OD.BIORTS)], OD.QSHIFTS[k % len(OD.QSHIFTS)]
        o, ri = (2, -1) if k % 3 else LAYOUTS[(k * 7) % len(LAYOUTS)]
        rt.guard(ck, oracle_dot, ck, table_filters(b, s), table_filters(b, s, True), 2 + k % 2, shp, o, ri, '%s/%s' % (b, s), 1e-9)
    # covering cases: modules whose state was taken over from another instance (constructed with other filters of the same
    # lengths, then load_state_dict + exact dtype round trip; or the deferred meta-device construction): gradients must
    # follow the CURRENT state
    for force in ('adopt', 'deferred'):
        ff = structured_filters(rng); fi = structured_filters(rng)
        rt.guard(ck, oracle_fwd_grad, ck, ff, 2, (8, 6), 2, -1, 0, 0, 'structured integer filters', 1e-9, force)
        rt.guard(ck, oracle_inv_grad, ck, fi, 2, 8, 6, 2, -1, 7, 'structured integer filters', 1e-9, force)
    # several channels (the Jacobian over all of them): nothing crosses channels in the backward passes either
    for (J_, shp, ch) in [(2, (6, 4), 2), (1, (4, 6), 3)]:
        rt.guard(ck, oracle_fwd_grad, ck, structured_filters(rng), J_, shp, 2, -1, 0, 0, 'structured integer filters', 1e-9, None, ch)
    n = (16 if q else 120) * (2 if extended else 1)
    for it in range(n):
        J = rng.randint(1, 2 if q else 3)
        o, ri = (2, -1) if rng.random() < 0.5 else rng.choice(LAYOUTS)
        if it % 2 == 0:
            b, s = rng.choice(pairs); named = '%s/%s' % (b, s); tol = 1e-9
            ff, fi = table_filters(b, s), table_filters(b, s, True)
        else:
            ff = structured_filters(rng); fi = structured_filters(rng); named = 'structured integer filters'; tol = 1e-9
        H = rng.randint(2, 10 if q else 14); W = rng.randint(2, 10 if q else 14)
        if it % 4 < 2:
            skm = rng.choice([0, 0, rng.randint(0, 2 ** J - 1)]); inm = rng.choice([0, 0, rng.randint(0, 2 ** J - 1)])
            rt.guard(ck, oracle_fwd_grad, ck, ff, J, (H, W), o, ri, skm, inm, named, tol)
        else:
            rt.guard(ck, oracle_inv_grad, ck, fi, J, H, W, o, ri, rng.randint(1, 2 ** (J + 1) - 1), named, tol)


def corr_cases(ck, n):
    """backward passes of the four Functions through autograd vs the model's backward"""
    rng = ck.rng
    for it in range(n):
        nb, c = rng.choice([(1, 1), (2, 1), (1, 2)])
        sym = rng.choice([1, 1, 0]); skip = rng.choice([0, 0, 1])
        o, ri = (2, -1) if rng.random() < 0.5 else rng.choice(LAYOUTS)
        f = dt_filters(rng)
        kind = it % 4
        r = rng.randint(1, 5); cc = rng.randint(1, 5)
        if kind == 0:      # FWD_J1 backward: cotangents for ll (2r x 2c) and highs
            dl = gen.int_tensor(rng, (nb, c, 2 * r, 2 * cc), 3)
            dh = None if skip else canon_to_layout(gen.int_tensor(rng, (nb, c, 6, r, cc, 2), 3), o, ri).copy()
            yield rt.Case('Q', 'FWD_J1_bwd', [o, ri, sym, skip], [f[0], f[1], dl, dh])
        elif kind == 1:
            dl = gen.int_tensor(rng, (nb, c, 2 * r, 2 * cc), 3)
            dh = None if skip else canon_to_layout(gen.int_tensor(rng, (nb, c, 6, r, cc, 2), 3), o, ri).copy()
            yield rt.Case('Q', 'FWD_J2PLUS_bwd', [o, ri, skip], f[2:] + [dl, dh])
        elif kind == 2:
            dy = gen.int_tensor(rng, (nb, c, 2 * r, 2 * cc), 3)
            yield rt.Case('Q', 'INV_J1_bwd', [o, ri, sym, rng.choice([1, 2, 3])], [f[0], f[1], dy])
        else:
            dy = gen.int_tensor(rng, (nb, c, 4 * r, 4 * cc), 3)
            yield rt.Case('Q', 'INV_J2PLUS_bwd', [o, ri, rng.choice([1, 2, 3])], f[2:] + [dy])


def run(ck):
    from ..impl_dtcwt_grad import IMPL as IMPLG
    from ..translate import regen_all
    rt.setup_torch()
    q = ck.tier == 'quick'
    ck.trusted = TRUSTED
    ck.extra['module'] = MODULE
    ck.extra['rule'] = ('correspondence (exact over Q(sqrt2)): torch.autograd.grad through FWD_J1 / FWD_J2PLUS / INV_J1 / INV_J2PLUS (all layouts, skip flag, every requires_grad mask) vs the model of '
                        'their backward passes, plus the forward ops they reuse; oracle: for both modules autograd == J^T g with J assembled from the forward pass on unit impulses, 20 named pairs '
                        'and integer filters with the structural identities (symmetric level-1, tree b = reversed tree a), layouts, skip/include masks, random grad subsets, to 1e-9')
    if not getattr(ck, 'no_lean', False):
        ck.lean = rt.lean_check(PROP, MODULE, THEOREMS, regen=regen_all)
    table = dict(IMPL); table.update(IMPLG)
    st = rt.correspond('impl-model(backward)', corr_cases(ck, 200 if q else 2000), table)
    ck.corr.append(st)
    st2 = rt.correspond('impl-model(forward ops)', dtcwt_cases(ck, 120 if q else 1200, ['fwd_j1', 'inv_j1', 'fwd_j2plus', 'inv_j2plus']), table)
    ck.corr.append(st2)
    oracle(ck, False)
    if ((ck.lean is not None and not ck.lean.ok) or st.mismatches or st2.mismatches) and not ck.failures:
        oracle(ck, True)


def replay(ck, path):
    rt.setup_torch()
    d = load_replay(path)
    f = d.get('failure', {}).get('replay')
    if not f:
        print('replay file names no failing input: %s' % d.get('broken_obligations'))
        return 1
    if f['oracle'] == 'quad-special':
        oracle_quad_special(ck, tuple(f['shape']))
        for fl in ck.failures:
            print('REPLAY-FAILS: ' + fl['desc'])
        if not ck.failures:
            print('REPLAY-PASSES')
        return 1 if ck.failures else 0
    if f['oracle'] == 'dot':
        oracle_dot(ck, [arr_from(a) for a in f['ff']], [arr_from(a) for a in f['fi']], f['J'], tuple(f['shape']), f['o'], f['ri'], f['named'], f['tol'])
        for fl in ck.failures:
            print('REPLAY-FAILS: ' + fl['desc'])
        if not ck.failures:
            print('REPLAY-PASSES')
        return 1 if ck.failures else 0
    filt = [arr_from(a) for a in f['filt']]
    if f['oracle'] == 'fwd_grad':
        oracle_fwd_grad(ck, filt, f['J'], tuple(f['shape']), f['o'], f['ri'], f['skm'], f['inm'], f['named'], f['tol'], f.get('force'), f.get('chan', 1))
    else:
        oracle_inv_grad(ck, filt, f['J'], f['H'], f['W'], f['o'], f['ri'], f['mask'], f['named'], f['tol'], f.get('force'))
    for fl in ck.failures:
        print('REPLAY-FAILS: ' + fl['desc'])
    if not ck.failures:
        print('REPLAY-PASSES')
    return 1 if ck.failures else 0
