"""C18 — shipped DTCWT filter tables satisfy the identities the code relies on."""
import os, glob, copy
import numpy as np
from .. import rt, gen
from ..dtcwt_common import TRUSTED, arr_json, arr_from, load_replay
from ..translate import regen_all

PROP = 'C18'
MODULE = 'WaveletsVerif.Properties.C18'
THEOREMS = ['WV.C18.level1_tables_ok', 'WV.C18.qshift_tables_ok', 'WV.C18.qshift_32_ok', 'WV.C18.all_tables_classified',
            'WV.C18.loader_keys_known', 'WV.C18.farras_not_qshift', 'WV.C18Z.miss_steps', 'WV.C18Z.hit_steps', 'WV.C18Z.loader_program_gen']
KF = 'C18-non-qshift-tables-accepted'
NOT_QSHIFT = ['farras', 'near_sym_a2']
L1_KEYS = ('h0o', 'g0o', 'h1o', 'g1o')
Q_KEYS = ('h0a', 'h0b', 'g0a', 'g0b', 'h1a', 'h1b', 'g1a', 'g1b')


def data_dir():
    return os.path.join(rt.REPO, 'pytorch_wavelets', 'dtcwt', 'data')


def file_tables():
    out = {}
    for f in sorted(glob.glob(os.path.join(data_dir(), '*.npz'))):
        z = np.load(f)
        out[os.path.basename(f)[:-4]] = {k: np.array(z[k]) for k in z.files if z[k].dtype.kind in 'fiu'}
    return out


def iso_first_load(args):
    """runs in a process of its own: the FIRST load of every table happens while torch's default dtype is args['dtype'];
    then the default is set back to float64 and every loader must return the stored arrays (the cache is keyed by table
    name only: what the default dtype was at the first load is nobody's business)"""
    import torch
    import pytorch_wavelets.dtcwt.coeffs as coeffs
    try:
        torch.set_default_dtype(getattr(torch, args['dtype']))
    except Exception as e:
        return ('skip', '%s: %s' % (type(e).__name__, str(e)[:80]))
    files = file_tables()
    try:
        for name, t in files.items():
            for fn in ((lambda: coeffs.level1(name, compact=True)), (lambda: coeffs.biort(name)), (lambda: coeffs.qshift(name)), (lambda: coeffs.level1(name, compact=False))):
                try:
                    fn()
                except Exception:
                    pass
    finally:
        torch.set_default_dtype(torch.float64)
    bad = []
    for name, t in files.items():
        calls = []
        if all(k in t for k in L1_KEYS):
            keys = L1_KEYS + (('h2o', 'g2o') if name == 'near_sym_b_bp' else ())
            calls.append(('level1(%s, compact=True)' % name, lambda n=name: coeffs.level1(n, compact=True), keys))
            calls.append(('biort(%s)' % name, lambda n=name: coeffs.biort(n), keys))
        if all(k in t for k in Q_KEYS):
            keys = Q_KEYS + (('h2a', 'h2b', 'g2a', 'g2b') if name == 'qshift_b_bp' else ())
            calls.append(('qshift(%s)' % name, lambda n=name: coeffs.qshift(n), keys))
        for what, fn, keys in calls:
            try:
                a = fn()
            except Exception as e:
                bad.append('%s raises %s' % (what, type(e).__name__)); continue
            if not (len(a) == len(keys) and all(np.asarray(x).shape == np.asarray(t[k]).shape and np.array_equal(x, t[k]) for x, k in zip(a, keys))):
                bad.append(what)
    return ('ok', bad)


def iso_path_collision(args):
    """runs in a process of its own: BEFORE any shipped table has been loaded, the loaders are handed paths of user files
    whose stems collide with shipped table names but hold other arrays (on the pinned tree such a call just raises);
    afterwards every loader called by NAME must still return the shipped arrays"""
    import tempfile, shutil
    import pytorch_wavelets.dtcwt.coeffs as coeffs
    files = file_tables()
    d = tempfile.mkdtemp(prefix='vp_tables_')
    try:
        swaps = {'near_sym_a': 'legall', 'antonini': 'near_sym_b', 'qshift_a': 'qshift_06', 'qshift_b': 'qshift_d'}
        for tgt, src in swaps.items():
            if tgt in files and src in files:
                np.savez(os.path.join(d, tgt + '.npz'), **files[src])
        for tgt in swaps:
            for pth in (os.path.join(d, tgt + '.npz'), os.path.join(d, tgt)):
                for fn in (coeffs.biort, coeffs.qshift, lambda n: coeffs.level1(n, compact=True), lambda n: coeffs.level1(n, compact=False)):
                    try:
                        fn(pth)
                    except Exception:
                        pass
    finally:
        shutil.rmtree(d, ignore_errors=True)
    bad = []
    for name, t in files.items():
        calls = []
        if all(k in t for k in L1_KEYS):
            keys = L1_KEYS + (('h2o', 'g2o') if name == 'near_sym_b_bp' else ())
            calls.append(('biort(%s)' % name, lambda n=name: coeffs.biort(n), keys))
        if all(k in t for k in Q_KEYS):
            keys = Q_KEYS + (('h2a', 'h2b', 'g2a', 'g2b') if name == 'qshift_b_bp' else ())
            calls.append(('qshift(%s)' % name, lambda n=name: coeffs.qshift(n), keys))
        for what, fn, keys in calls:
            try:
                a = fn()
            except Exception as e:
                bad.append('%s raises %s' % (what, type(e).__name__)); continue
            if not (len(a) == len(keys) and all(np.asarray(x).shape == np.asarray(t[k]).shape and np.array_equal(x, t[k]) for x, k in zip(a, keys))):
                bad.append(what)
    return ('ok', bad)


def ac(a, b, n):
    a = np.ravel(a); b = np.ravel(b)
    return float(sum(a[k] * b[k + 2 * n] for k in range(len(a) - 2 * n)))


def identities(name, t):
    """numeric evaluation of every identity; returns list of (what, defect, tolerance)"""
    res = []
    if 'h0o' in t:
        for k in [k for k in t if k.endswith('o')]:
            v = np.ravel(t[k])
            res.append(('%s.%s symmetric' % (name, k), float(np.abs(v - v[::-1]).max()), 2.0 ** -40))
            res.append(('%s.%s odd length' % (name, k), 0.0 if len(v) % 2 == 1 else 1.0, 0.5))
        pr = np.convolve(np.ravel(t['h0o']), np.ravel(t['g0o'])) + np.convolve(np.ravel(t['h1o']), np.ravel(t['g1o']))
        d = np.zeros_like(pr); d[len(pr) // 2] = 1
        res.append(('%s h0o*g0o+h1o*g1o = delta' % name, float(np.abs(pr - d).max()), 2.0 ** -40))
    if 'h0a' in t:
        tol = 2.0 ** -28 if name == 'qshift_32' else 2.0 ** -40
        fams = ['0', '1'] + (['2'] if 'h2a' in t else [])
        for fm in fams:
            ha, hb, ga, gb = [np.ravel(t['%s%s%s' % (p, fm, s)]) for p, s in (('h', 'a'), ('h', 'b'), ('g', 'a'), ('g', 'b'))]
            res.append(('%s h%sb = reverse(h%sa)' % (name, fm, fm), 0.0 if (hb.shape == ha.shape and np.array_equal(hb, ha[::-1])) else 1.0, 0.5))
            res.append(('%s g%sa = reverse(h%sa)' % (name, fm, fm), 0.0 if (ga.shape == ha.shape and np.array_equal(ga, ha[::-1])) else 1.0, 0.5))
            res.append(('%s g%sb = reverse(h%sb)' % (name, fm, fm), 0.0 if (gb.shape == hb.shape and np.array_equal(gb, hb[::-1])) else 1.0, 0.5))
            if fm != '2':
                m = len(ha)
                res.append(('%s h%sa orthonormal' % (name, fm), max(abs(ac(ha, ha, n) - (1 if n == 0 else 0)) for n in range(m // 2)), tol))
            sgn = float(np.sign(np.sum(ha * hb)))
            res.append(('%s sign(sum h%sa*h%sb)' % (name, fm, fm), 0.0 if sgn == (1.0 if fm == '0' else -1.0) else 1.0, 0.5))
        h0a, h1a = np.ravel(t['h0a']), np.ravel(t['h1a'])
        res.append(('%s h0a,h1a cross-orthogonal' % name, max(max(abs(ac(h0a, h1a, n)), abs(ac(h1a, h0a, n))) for n in range(len(h0a) // 2)), tol))
    return res


def run(ck):
    rt.setup_torch()
    q = ck.tier == 'quick'
    ck.trusted = TRUSTED[:3] + ['translator npz -> exact dyadic rationals (harness/translate.py); the loader is tied to the files by comparing what it returns with the file contents',
                                'the numpy `dtcwt` package tables are the reference the shipped tables must equal (bit-exact comparison)']
    ck.extra['module'] = MODULE
    ck.extra['rule'] = ('every array of every dtcwt/data/*.npz is regenerated as exact dyadic rationals into Lean and every identity is decided by decide +kernel (exhaustive over the 14 files); '
                        'the loaders level1()/biort()/qshift() are compared with the file contents for every accepted name, twice, and again after constructing every table-consuming module; '
                        'bit-exact comparison with the reference package; each (table, identity) is one evaluation')
    ck.extra['exhaustive'] = True
    if not getattr(ck, 'no_lean', False):
        ck.lean = rt.lean_check(PROP, MODULE, THEOREMS, regen=regen_all)
    import pytorch_wavelets.dtcwt.coeffs as coeffs
    files = file_tables()
    st = rt.CorrStats('loader-vs-files')
    ck.corr.append(st)

    def loader_check(tag):
        for name, t in files.items():
            calls = []
            if all(k in t for k in L1_KEYS):
                keys = L1_KEYS + (('h2o', 'g2o') if name == 'near_sym_b_bp' else ())
                calls.append(('level1(%s, compact=True)' % name, lambda n=name: coeffs.level1(n, compact=True), keys))
                calls.append(('biort(%s)' % name, lambda n=name: coeffs.biort(n), keys))
            if all(k in t for k in Q_KEYS):
                keys = Q_KEYS + (('h2a', 'h2b', 'g2a', 'g2b') if name == 'qshift_b_bp' else ())
                calls.append(('qshift(%s)' % name, lambda n=name: coeffs.qshift(n), keys))
                calls.append(('level1(%s, compact=False)' % name, lambda n=name: coeffs.level1(n, compact=False), Q_KEYS))
            for what, fn, keys in calls:
                st.evaluations += 1
                st.by_op[tag] = st.by_op.get(tag, 0) + 1
                try:
                    a = fn(); b = fn()
                except Exception as e:
                    ck.fail('%s [%s]: loader raises %s: %s' % (what, tag, type(e).__name__, str(e)[:80]), {'oracle': 'loader', 'call': what})
                    continue
                ok = len(a) == len(keys) and all(np.asarray(x).shape == np.asarray(t[k]).shape and np.array_equal(x, t[k]) for x, k in zip(a, keys))
                twice = len(a) == len(b) and all(np.array_equal(x, y) for x, y in zip(a, b))
                if not ok:
                    st.mismatches.append((rt.Case('Z', 'loader', [], [], {'call': what, 'when': tag}), '%s does not return the arrays stored in %s.npz' % (what, name)))
                    ck.fail('%s [%s]: returned values differ from the shipped file %s.npz' % (what, tag, name), {'oracle': 'loader', 'call': what, 'when': tag})
                elif not twice:
                    ck.fail('%s [%s]: loading twice returns different values' % (what, tag), {'oracle': 'loader-twice', 'call': what, 'when': tag})
                else:
                    st.classes.add((what, tag))
    loader_check('fresh')
    # the first load of every table in a process under another default dtype (fresh processes)
    dts = ['float16', 'bfloat16', 'float32']
    for dt_, res in zip(dts, rt.iso_run([{'module': 'harness.props.c18', 'func': 'iso_first_load', 'args': {'dtype': d}} for d in dts])):
        st.evaluations += 1
        if isinstance(res, tuple) and res and res[0] == 'ok':
            if res[1]:
                ck.fail('after a FIRST load of the tables under torch default dtype %s (fresh process) and a switch back to float64, %s no longer returns the arrays stored in the shipped file'
                        % (dt_, res[1][0]), {'oracle': 'first-load-dtype', 'dtype': dt_, 'calls': res[1][:6]})
            else:
                st.classes.add(('first-load', dt_))
        else:
            ck.notes.append('first-load history under %s not run: %s' % (dt_, str(res)[:100]))
    res = rt.iso_run([{'module': 'harness.props.c18', 'func': 'iso_path_collision', 'args': {}}])[0]
    st.evaluations += 1
    if isinstance(res, tuple) and res and res[0] == 'ok':
        if res[1]:
            ck.fail('after the loaders were handed PATHS of user files whose stems equal shipped table names (fresh process, before any shipped table was loaded), %s no longer returns the '
                    'arrays stored in the shipped file' % res[1][0], {'oracle': 'path-collision', 'calls': res[1][:6]})
        else:
            st.classes.add(('path-collision',))
    else:
        ck.notes.append('path-collision history not run: %s' % str(res)[:100])
    # numeric identities (the failing-input search for the Lean theorems) + reference comparison
    import dtcwt.coeffs as ref
    for name, t in files.items():
        for what, defect, tol in identities(name, t):
            if defect <= tol:
                ck.oracle_ok((what,), group='identity', sample={'identity': what, 'defect': defect, 'tolerance': tol})
            else:
                kk = KF if name in NOT_QSHIFT else None
                ck.fail('%s: defect %.3g > %.3g' % (what, defect, tol), {'oracle': 'identity', 'what': what}, known_key=kk)
        r = None
        try:
            if 'h0o' in t:
                r = dict(zip(L1_KEYS + (('h2o', 'g2o') if name == 'near_sym_b_bp' else ()), ref.biort(name)))
            elif name not in NOT_QSHIFT:
                r = dict(zip(Q_KEYS + (('h2a', 'h2b', 'g2a', 'g2b') if name == 'qshift_b_bp' else ()), ref.qshift(name)))
        except Exception:
            r = None          # the reference package has no table of this name
        if r is not None:
            for k, v in r.items():
                if k in t and np.asarray(v).shape == t[k].shape and np.array_equal(np.asarray(v), t[k]):
                    ck.oracle_ok(('ref', name, k), group='reference-bit-exact', sample={'table': name, 'key': k, 'len': int(t[k].size)})
                else:
                    ck.fail('%s.%s differs from the reference dtcwt package table' % (name, k), {'oracle': 'reference', 'table': name, 'key': k})
    # construct every table-consuming module, then check the cache again (in-place writes into COEFF_CACHE)
    try:
        import torch
        from pytorch_wavelets import DTCWTForward, DTCWTInverse, ScatLayer, ScatLayerj2
        for b in ['antonini', 'legall', 'near_sym_a', 'near_sym_b']:
            for s in ['qshift_06', 'qshift_a', 'qshift_b', 'qshift_c', 'qshift_d']:
                DTCWTForward(biort=b, qshift=s, J=2); DTCWTInverse(biort=b, qshift=s)
        for b in ['near_sym_a', 'near_sym_b', 'near_sym_b_bp']:
            ScatLayer(biort=b)
        ScatLayerj2(biort='near_sym_b_bp', qshift='qshift_b_bp'); ScatLayerj2()
        try:
            from pytorch_wavelets.dtcwt import lowlevel2
            for cls in ('DTCWTForward2', 'DTCWTInverse2'):
                if hasattr(lowlevel2, cls):
                    getattr(lowlevel2, cls)()
        except Exception as e:
            ck.notes.append('dtcwt.lowlevel2 modules not constructed: %s' % type(e).__name__)
        x = torch.randn(1, 1, 16, 16)
        DTCWTInverse()(DTCWTForward(J=2)(x))
    except Exception as e:
        ck.notes.append('module construction raised %s: %s' % (type(e).__name__, str(e)[:80]))
    loader_check('after-constructing-modules')
    # every public entry point of the loader with every table name and flag, whether or not the combination is
    # supported (unsupported ones raise ValueError): none of these calls may change what later calls return
    import inspect
    abuse = 0
    for name in sorted(files) + ['no_such_table']:
        for fn_name in ('level1', 'biort', 'qshift'):
            fn = getattr(coeffs, fn_name, None)
            if fn is None:
                continue
            kws = [{}]
            if 'compact' in inspect.signature(fn).parameters:
                kws = [{'compact': False}, {'compact': True}, {}]
            for kw in kws:
                try:
                    r = fn(name, **kw)
                    for a in (r if isinstance(r, (tuple, list)) else [r]):
                        np.asarray(a).sum()
                except Exception:
                    pass
                abuse += 1
        for cls_name in ('DTCWTForward2', 'DTCWTInverse2'):
            try:
                from pytorch_wavelets.dtcwt import lowlevel2
                getattr(lowlevel2, cls_name)(biort=name) if 'h0o' in files.get(name, {}) else None
            except Exception:
                pass
    ck.extra['loader_calls_in_every_combination'] = abuse
    loader_check('after-every-loader-call-combination')
    # consumers built FROM LOADER OUTPUT under both default dtypes, then written to in place (load_state_dict, buffer.mul_):
    # a module's filters are its own; what the loaders hand out later must still be the shipped tables
    written = 0
    try:
        import torch
        from pytorch_wavelets import DTCWTForward, DTCWTInverse, DWTForward, DWTInverse, DWT1DForward, DWT1DInverse
        old = torch.get_default_dtype()
        try:
            for dt in (torch.float32, torch.float64):
                torch.set_default_dtype(dt)
                mods = []
                for s_ in ['qshift_06', 'qshift_a', 'qshift_b', 'qshift_c', 'qshift_d']:
                    h0a, h0b, g0a, g0b, h1a, h1b, g1a, g1b = coeffs.qshift(s_)[:8]
                    for ctor in (lambda: DWTForward(J=1, wave=(h0a, h1a)), lambda: DWTInverse(wave=(g0a, g1a)), lambda: DWT1DForward(J=1, wave=(h0b, h1b)),
                                 lambda: DWT1DInverse(wave=(g0b, g1b)), lambda: DWTForward(J=1, wave=(h0a, h1a, h0b, h1b)), lambda: DWTInverse(wave=(g0a, g1a, g0b, g1b)),
                                 lambda: DTCWTForward(biort='near_sym_a', qshift=s_, J=2), lambda: DTCWTInverse(biort='near_sym_a', qshift=s_)):
                        try:
                            mods.append(ctor())
                        except Exception:
                            pass
                for b_ in ['antonini', 'legall', 'near_sym_a', 'near_sym_b', 'near_sym_b_bp']:
                    t_ = coeffs.level1(b_, compact=True)
                    h0o, g0o, h1o, g1o = t_[:4]
                    for ctor in (lambda: DWTForward(J=1, wave=(h0o, h1o)), lambda: DWTInverse(wave=(g0o, g1o)), lambda: DWT1DInverse(wave=(g0o, g1o))):
                        try:
                            mods.append(ctor())
                        except Exception:
                            pass
                try:
                    from pytorch_wavelets.dtcwt import lowlevel2
                    for cls in ('DTCWTForward2', 'DTCWTInverse2'):
                        for kw in ({}, {'qshift': 'qshift_a'}, {'biort': 'near_sym_a', 'qshift': 'qshift_b'}):
                            try:
                                mods.append(getattr(lowlevel2, cls)(**kw))
                            except Exception:
                                pass
                except Exception:
                    pass
                with torch.no_grad():
                    for m_ in mods:
                        sd = {k: v.clone() * 0 + 7 for k, v in m_.state_dict().items()}
                        for t_ in list(m_.buffers()) + list(m_.parameters()):
                            t_.mul_(1.25); written += 1
                        m_.load_state_dict(sd)
        finally:
            torch.set_default_dtype(old)
    except Exception as e:
        ck.notes.append('in-place write phase raised %s: %s' % (type(e).__name__, str(e)[:80]))
    ck.extra['module_tensors_written_in_place'] = written
    loader_check('after-in-place-writes-to-module-filters')
    st.samples.append({'loader_calls': st.evaluations, 'files': sorted(files)})


def replay(ck, path):
    d = load_replay(path)
    print('replay: re-running the whole (exhaustive, deterministic) table check')
    run(ck)
    for fl in ck.failures:
        print('REPLAY-FAILS: ' + fl['desc'])
    if not ck.failures:
        print('REPLAY-PASSES')
    return 1 if ck.failures else 0
