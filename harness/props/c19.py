"""C19 — non-separable one-level filter bank equals the separable one."""
import numpy as np
from .. import rt, gen, proto
from ..dwt_common import *
from ..impl_dwt import IMPL

PROP = 'C19'
MODULE = 'WaveletsVerif.Properties.C19'
THEOREMS = ['WV.C19.corr2_outer_eq', 'WV.C19.outerRev_eq', 'WV.C19.rows_corr_get',
            'WV.C19N.get2_xpZero', 'WV.C19N.band_eq', 'WV.C19N.afb2d_nonsep_zero_eq_sep', 'WV.C19N.afb2d_nonsep_zero_eq_AFB2D',
            'WV.C19S.convT2Full_outer', 'WV.C19S.sfb2d_nonsep_zero_eq_sep', 'WV.C19S.sfb2d_nonsep_zero_eq_SFB2D',
            'WV.C19X.xpPad_tab', 'WV.C19X.band_eq_pad', 'WV.C19X.afb2d_nonsep_symmetric_eq_sep', 'WV.C19X.afb2d_nonsep_symmetric_eq_AFB2D',
            'WV.C19X.afb2d_nonsep_reflect_eq_sep', 'WV.C19X.afb2d_nonsep_reflect_eq_AFB2D', 'WV.C19X.afb2d_nonsep_reflect_raises',
            'WV.C19X.sfb2d_nonsep_ext_eq_SFB2D',
            'WV.C19P.xpPer_sep', 'WV.C19P.band_eq_per', 'WV.C19P.afb2d_nonsep_per_eq_sep', 'WV.C19P.afb2d_nonsep_per_eq_AFB2D',
            'WV.C19Q.convT2Full_outer_sep', 'WV.C19Q.postQ_eq', 'WV.C19Q.sfb2d_nonsep_per_eq_sep', 'WV.C19Q.sfb2d_nonsep_per_eq_SFB2D',
            'WV.C19Z.afb2dNonsepCh_per_gen', 'WV.C19Z.sfb2dNonsepCh_per_gen', 'WV.C19Z.nonsep_pads', 'WV.C19Z.rollPy_gen', 'WV.C19Z.prep_mirrors_gen']
OPS = ['afb2d_nonsep', 'sfb2d_nonsep', 'afb2d', 'sfb2d']
MODES4 = [0, 1, 4, 2]


def oracle_eq(ck, m, four, h, x=None, co=None, tol=0.0):
    """h = (c0, c1, r0, r1) raw filters; compares on the real code"""
    hc0, hc1, hr0, hr1 = h
    replay = {'oracle': 'nonsep', 'm': m, 'four': four, 'h': [arr_json(f) for f in h], 'x': arr_json(x), 'co': arr_json(co), 'tol': tol}
    if x is not None:
        desc = 'afb2d_nonsep vs afb2d mode=%s L=(%d,%d) shape=%s' % (gen.MODE_NAME[m], len(hc0), len(hr0), tuple(x.shape))
        a = rt.run_impl(rt.Case('Z', 'afb2d_nonsep', [m, ck.rng.randint(0, 5)], [hc0, hc1, hr0, hr1, x]), IMPL)
        b = rt.run_impl(rt.Case('Z', 'afb2d', [m], [hc0[::-1].copy(), hc1[::-1].copy(), hr0[::-1].copy(), hr1[::-1].copy(), x]), IMPL)
    else:
        desc = 'sfb2d_nonsep vs sfb2d mode=%s L=(%d,%d) coeffs=%s' % (gen.MODE_NAME[m], len(hc0), len(hr0), tuple(co.shape))
        a = rt.run_impl(rt.Case('Z', 'sfb2d_nonsep', [m, ck.rng.randint(0, 5)], [hc0, hc1, hr0, hr1, co]), IMPL)
        b = rt.run_impl(rt.Case('Z', 'sfb2d', [m], [hc0, hc1, hr0, hr1, co[:, :, 0], co[:, :, 1], co[:, :, 2], co[:, :, 3]]), IMPL)
    ra, rb = isinstance(a, tuple), isinstance(b, tuple)
    if ra or rb:
        if ra and rb:
            ck.oracle_ok(('both-raise', m), nontriv=False, group='both-raise')
            return None
        # "every ... padding mode they both accept": one raising and the other not is outside the quantifier only
        # when the input is rejected; report it, it is how a half-broken bank shows
        ck.fail(desc + ': %s raises (%s), the other returns' % ('nonsep' if ra else 'separable', (a if ra else b)[2][:80]), replay)
        return 'raise'
    ok, why = same(a, b, tol)
    if ok:
        ck.oracle_ok((m, four, len(hc0), len(hr0), tuple((x if x is not None else co).shape)), group='afb' if x is not None else 'sfb',
                     sample={'what': desc, 'out_head': [float(v) for v in np.ravel(a[0])[:4]]})
        return None
    ck.fail(desc + ': ' + why, replay)
    return 'diff'


def oracle_channels_last(ck):
    """afb2d_nonsep on a channels-last image smaller than the filter (periodization) returns what the contiguous copy gives and
    what the separable bank gives"""
    import torch
    from pytorch_wavelets.dwt import lowlevel as L_
    hc0 = np.array([1., 2., 3., 4., -1., 2., 1., -3., 2., 1., 1., -2., 3.]); hc1 = hc0[::-1] * np.array([1., -1.] * 6 + [1.])
    hr0 = np.array([1., 2., -1., 3., 1., 2., -2.]); hr1 = hr0[::-1].copy()
    x = torch.tensor(gen.int_tensor(ck.rng, (1, 2, 4, 7)), dtype=torch.float64)
    f = L_.prep_filt_afb2d_nonsep(hc0, hc1, hr0, hr1).double()
    desc = 'afb2d_nonsep periodization L=(13,7) on a channels-last (1,2,4,7) image'
    replay = {'oracle': 'channels-last'}
    try:
        a = L_.afb2d_nonsep(x.contiguous(memory_format=torch.channels_last), f, mode='periodization')
    except Exception as e:
        ck.fail(desc + ': raises %s: %s' % (type(e).__name__, str(e)[:100]), replay); return 'raise'
    b = L_.afb2d_nonsep(x, f, mode='periodization')
    if a.shape != b.shape or not torch.equal(a, b):
        ck.fail(desc + ': differs from the result on the contiguous copy', replay); return 'diff'
    ck.oracle_ok(('channels-last', 13, 7), group='afb')
    return None


def oracle(ck, extended):
    rng = ck.rng
    q = ck.tier == 'quick'
    # regression witnesses of the repaired defect (fix a82b8fe): a single tiny coefficient image with length-8 filters, and a
    # channels-last single image with two channels and fewer rows than half the (odd) column filter, periodization
    w8a = np.array([1., 2., 3., 4., -1., 2., 1., -3.]); w8b = np.array([2., -1., 3., 1., 1., -2., 2., 1.])
    rt.guard(ck, oracle_eq, ck, 2, False, (w8a, w8b, w8a, w8b), None, gen.int_tensor(rng, (1, 1, 4, 2, 2)))
    rt.guard(ck, oracle_channels_last, ck)
    # taps that are not float32 numbers (the shipped wavelets), double precision data: agreement to double rounding
    import pywt
    for name in ['db2', 'db3', 'sym4', 'bior2.2', 'coif1'] + ([] if q else ['db5', 'bior4.4', 'rbio3.3']):
        w = pywt.Wavelet(name)
        for m in MODES4:
            fa = (np.array(w.dec_lo), np.array(w.dec_hi)) * 2; fs = (np.array(w.rec_lo), np.array(w.rec_hi)) * 2
            L = len(w.dec_lo)
            rt.guard(ck, oracle_eq, ck, m, False, fa, gen.float_tensor(ck.nprng, (1, 2, gen.pick_len(rng, L, 16), gen.pick_len(rng, L, 16))), None, 1e-12)
            rt.guard(ck, oracle_eq, ck, m, False, fs, None, gen.float_tensor(ck.nprng, (1, 2, 4, rng.randint(L // 2 + 1, 9), rng.randint(L // 2 + 1, 9))), 1e-12)
    # long filters on tiny images (the roll / fold arithmetic far outside the usual regime: shifts of several periods), every mode,
    # the 4-filter form with a long filter on one axis only; several channels (the one-image synthesis case is the recorded finding)
    for Ll in ((10, 18) if q else (10, 14, 18, 20, 26)):
        for m in MODES4:
            c0 = gen.int_filter(rng, Ll); c1 = gen.int_filter(rng, Ll); r0 = gen.int_filter(rng, 2); r1 = gen.int_filter(rng, 2)
            for (H, W) in ((2, 9), (9, 2), (1, 5), (4, 4), (3, 2)):
                rt.guard(ck, oracle_eq, ck, m, False, (c0, c1, c0, c1), x=gen.int_tensor(rng, (1, 2, H, W)))
                rt.guard(ck, oracle_eq, ck, m, True, (c0, c1, r0, r1), x=gen.int_tensor(rng, (1, 2, H, W)))
                rt.guard(ck, oracle_eq, ck, m, True, (r0, r1, c0, c1), x=gen.int_tensor(rng, (1, 2, H, W)))
            for (h, w) in ((1, 5), (5, 1), (2, 2), (1, 1)):
                rt.guard(ck, oracle_eq, ck, m, False, (c0, c1, c0, c1), co=gen.int_tensor(rng, (1, 2, 4, h, w)))
                rt.guard(ck, oracle_eq, ck, m, True, (c0, c1, r0, r1), co=gen.int_tensor(rng, (1, 2, 4, h, w)))
    # images / coefficient arrays above every blocking / tiling threshold (gen.scale_shapes_2d), the four shared modes, filters
    # of several lengths (what breaks above a threshold often breaks only when the last block is thinner than the filter)
    for k, shp in enumerate(gen.scale_shapes_2d(ck.tier)):
        for m in MODES4:
            Lc = [4, 6, 8, 10, 16][(k + m) % 5]; four = (k + m) % 3 == 0; Lr = 2 if four else Lc
            c0 = gen.int_filter(rng, Lc); c1 = gen.int_filter(rng, Lc)
            r0, r1 = (gen.int_filter(rng, Lr), gen.int_filter(rng, Lr)) if four else (c0, c1)
            rt.guard(ck, oracle_eq, ck, m, four, (c0, c1, r0, r1), x=gen.int_tensor(rng, shp))
            if (k + m) % 2 == 0:
                rt.guard(ck, oracle_eq, ck, m, four, (c0, c1, r0, r1), co=gen.int_tensor(rng, (shp[0], shp[1], 4, max(1, shp[2] // 2), max(1, shp[3] // 2))))
    for it in range((120 if q else 1200) * (3 if extended else 1)):
        Lc = rng.randint(2, 8 if q else 14); m = rng.choice(MODES4)
        four = rng.random() < 0.5
        Lr = rng.randint(2, 8) if four else Lc
        c0 = gen.int_filter(rng, Lc); c1 = gen.int_filter(rng, Lc)
        r0, r1 = (gen.int_filter(rng, Lr), gen.int_filter(rng, Lr)) if four else (c0, c1)
        nb, c = rng.choice([(1, 1), (2, 1), (1, 2)])
        if it % 2 == 0:
            x = gen.int_tensor(rng, (nb, c, gen.pick_len(rng, Lc, 14), gen.pick_len(rng, Lr, 14)))
            rt.guard(ck, oracle_eq, ck, m, four, (c0, c1, r0, r1), x=x)
        else:
            co = gen.int_tensor(rng, (nb, c, 4, rng.randint(1, 7), rng.randint(1, 7)))
            rt.guard(ck, oracle_eq, ck, m, four, (c0, c1, r0, r1), co=co)


def run(ck):
    std_run(ck, PROP, MODULE, THEOREMS, OPS, 300, 2400, oracle,
            rule='correspondence: afb2d_nonsep / sfb2d_nonsep / afb2d / sfb2d on integer data incl. images smaller than the filters and odd filter lengths; oracle: nonsep == separable on the real '
                 'code, 2- and 4-filter forms, four shared modes, exact; distinct by (mode, form, Lcol, Lrow, shape)')


def replay(ck, path):
    rt.setup_torch()
    d = load_replay(path)
    f = d.get('failure', {}).get('replay')
    if not f:
        print('replay file names no failing input: %s' % d.get('broken_obligations'))
        return 1
    if f.get('oracle') == 'channels-last':
        oracle_channels_last(ck)
    else:
        oracle_eq(ck, f['m'], f['four'], tuple(arr_from(a) for a in f['h']), x=arr_from(f['x']), co=arr_from(f['co']), tol=f.get('tol', 0.0))
    for fl in ck.failures:
        print('REPLAY-FAILS: ' + fl['desc'])
    if not ck.failures:
        print('REPLAY-PASSES')
    return 1 if ck.failures else 0
