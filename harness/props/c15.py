"""C15 — calls are pure: no argument mutation, no dependence on call history or threads."""
import os, glob, threading, copy
import numpy as np
import torch
from .. import rt, gen, proto
from ..dwt_common import TRUSTED, same, load_replay
from ..impl_dwt import T, N as NP

PROP = 'C15'
MODULE = 'WaveletsVerif.Properties.C15'
THEOREMS = ['WV.C15.inv_init', 'WV.C15.load_spec', 'WV.C15.run_spec', 'WV.C15.tstep_ok', 'WV.C15.sched_ok', 'WV.C18Z.miss_steps', 'WV.C18Z.loader_program_gen', 'WV.C10Z.forward_keeps_no_state_gen', 'WV.C10Z.writes_into_parameters_gen']


# ---------------------------------------------------------------------------
# trace correspondence of the coefficient cache
# ---------------------------------------------------------------------------

def cache_cases(ck, n):
    import pytorch_wavelets.dtcwt.coeffs as coeffs
    rng = ck.rng
    d = os.path.join(rt.REPO, 'pytorch_wavelets', 'dtcwt', 'data')
    names = sorted(os.path.basename(f)[:-4] for f in glob.glob(os.path.join(d, '*.npz')))
    tabs = {nm: set(k for k in np.load(os.path.join(d, nm + '.npz')).files) for nm in names}
    keys = sorted(set().union(*tabs.values()) - {'__globals__', '__header__', '__version__'})[:14] + ['no_such_key']
    F, K = len(names), len(keys)
    present = np.array([[1.0 if k in tabs[nm] else 0.0 for k in keys] for nm in names])
    for it in range(n):
        M = rng.randint(3, 12)
        ops = []
        for _ in range(M):
            f = rng.randrange(F + 1) if rng.random() < 0.15 else rng.randrange(F)
            fam = rng.random()
            if fam < 0.4:
                ks = [k for k in keys if k in ('h0o', 'g0o', 'h1o', 'g1o')]
            elif fam < 0.8:
                ks = [k for k in keys if k in ('h0a', 'h0b', 'g0a', 'g0b', 'h1a', 'h1b', 'g1a', 'g1b')]
            else:
                ks = rng.sample(keys, rng.randint(1, 4))
            ops.append([float(f)] + [1.0 if k in ks else 0.0 for k in keys])
        ops = np.array(ops)

        def impl(ps, ts, names=names, keys=keys, coeffs=coeffs):
            coeffs.COEFF_CACHE.clear()          # a fresh process state for this history
            codes = []; mem = []
            for row in ts[1]:
                f = int(row[0]); ks = tuple(k for k, m in zip(keys, row[1:]) if m == 1.0)
                nm = names[f] if f < len(names) else 'no_such_table'
                try:
                    vals = coeffs._load_from_file(nm, ks)
                    assert len(vals) == len(ks)
                    codes.append(0.0)
                except ValueError:
                    codes.append(1.0)
                except (IOError, OSError):
                    codes.append(2.0)
                mem.append([1.0 if n2 in coeffs.COEFF_CACHE else 0.0 for n2 in names])
            coeffs.COEFF_CACHE.clear()
            return [np.array(codes), np.array(mem)]
        yield rt.Case('Z', 'cache_trace', [], [present, ops], {'ops': M}, impl=impl)


# ---------------------------------------------------------------------------
# trace oracle on the real transforms
# ---------------------------------------------------------------------------

def pool(rng):
    """a pool of module configurations: (name, constructor thunk, input maker)"""
    from pytorch_wavelets import DWTForward, DWTInverse, DWT1DForward, DWT1DInverse, DTCWTForward, DTCWTInverse, ScatLayer, ScatLayerj2
    from pytorch_wavelets.dwt.transform2d import SWTForward
    P = []
    for wave, mode, J in [('db2', 'symmetric', 2), ('db3', 'periodic', 1), ('bior2.4', 'periodization', 2), ('db1', 'zero', 3), ('db3', 'symmetric', 1), ('db3', 'reflect', 1)]:
        P.append(('DWTForward(%s,%s,%d)' % (wave, mode, J), lambda w=wave, m=mode, j=J: DWTForward(J=j, wave=w, mode=m), 'img'))
        P.append(('DWT1DForward(%s,%s,%d)' % (wave, mode, J), lambda w=wave, m=mode, j=J: DWT1DForward(J=j, wave=w, mode=m), 'sig'))
    P.append(('SWTForward(db2,2)', lambda: SWTForward(J=2, wave='db2'), 'img8'))
    for b, s, J in [('near_sym_a', 'qshift_a', 2), ('near_sym_b', 'qshift_b', 3), ('antonini', 'qshift_06', 2), ('legall', 'qshift_d', 1)]:
        P.append(('DTCWTForward(%s,%s,%d)' % (b, s, J), lambda b=b, s=s, j=J: DTCWTForward(biort=b, qshift=s, J=j), 'img'))
    # non-default options in every accepted form (lists, tuples, arrays; layouts; mode alias; per-axis wavelets; biases)
    P.append(('DTCWTForward(J=3, skip_hps=[F,T,F], include_scale=(T,F,T))', lambda: DTCWTForward(J=3, skip_hps=[False, True, False], include_scale=(True, False, True)), 'img'))
    P.append(('DTCWTForward(J=2, skip_hps=array[T,F], o_dim=1, ri_dim=-1)', lambda: DTCWTForward(J=2, skip_hps=np.array([True, False]), o_dim=1, ri_dim=-1), 'img'))
    P.append(('DTCWTForward(J=2, include_scale=[F,T])', lambda: DTCWTForward(J=2, include_scale=[False, True]), 'img'))
    P.append(('DWTForward((db2,db3) per axis, per, 2)', lambda: DWTForward(J=2, wave=_axis_pair('db2', 'db3'), mode='per'), 'img'))
    P.append(('ScatLayer(near_sym_b_bp, magbias=0.5, colour)', lambda: ScatLayer(biort='near_sym_b_bp', magbias=0.5, combine_colour=True), 'img3'))
    P.append(('ScatLayer(near_sym_a)', lambda: ScatLayer(biort='near_sym_a'), 'img'))
    P.append(('ScatLayerj2', lambda: ScatLayerj2(), 'img8'))
    P.append(('roundtrip DWT(db2,symmetric)', lambda: _Round(DWTForward(J=2, wave='db2', mode='symmetric'), DWTInverse(wave='db2', mode='symmetric')), 'img'))
    P.append(('roundtrip DTCWT', lambda: _Round(DTCWTForward(J=2), DTCWTInverse()), 'img'))
    return P


def _axis_pair(wc, wr):
    import pywt
    a, b = pywt.Wavelet(wc), pywt.Wavelet(wr)
    return (np.array(a.dec_lo), np.array(a.dec_hi), np.array(b.dec_lo), np.array(b.dec_hi))


class _Round:
    def __init__(self, f, i):
        self.f = f; self.i = i

    def __call__(self, x):
        return self.i(self.f(x))

    def double(self):
        self.f.double(); self.i.double(); return self


def same_val(a, b):
    """equality of two results of the SAME call up to the rounding PyTorch itself does not fix (kernel choice under
    contention, memory layout of an equal-valued input): same None-ness, shape and dtype, values within 16 ulp of the scale"""
    if a is None or b is None:
        return a is None and b is None
    if a.shape != b.shape or a.dtype != b.dtype:
        return False
    if torch.equal(a, b):
        return True
    if not (torch.isfinite(a).all() and torch.isfinite(b).all()):
        return False
    eps = torch.finfo(a.dtype).eps if a.dtype.is_floating_point else 0.0
    return float((a.double() - b.double()).abs().max()) <= 16 * eps * max(1.0, float(b.abs().max()))


def flat_out(o):
    if isinstance(o, torch.Tensor):
        return [o.detach().clone()]
    if o is None:
        return [None]
    res = []
    for t in o:
        res += flat_out(t)
    return res


def live_flat(o):
    """like flat_out but without cloning: looks at the very objects the module returned"""
    if isinstance(o, torch.Tensor):
        return [o.detach()]
    if o is None:
        return [None]
    res = []
    for t in o:
        res += live_flat(t)
    return res


def make_input(rng, kind, shape_id, dtype):
    shapes = {'img': [(1, 2, 16, 16), (2, 1, 12, 20), (1, 1, 9, 7), (1, 3, 8, 8)], 'img8': [(1, 1, 8, 8), (1, 2, 16, 8)], 'img3': [(1, 3, 8, 8), (2, 3, 12, 10)], 'sig': [(1, 2, 16), (2, 1, 21), (1, 1, 9)]}[kind]
    sh = shapes[shape_id % len(shapes)]
    r = np.random.default_rng(1000 + shape_id)
    return torch.tensor(r.integers(-8, 9, sh).astype(np.float64)).to(dtype)


ISO = {}


def iso_job(args):
    """runs inside harness.iso_worker"""
    ci, si, dt = args['key']
    torch.set_default_dtype(torch.float32)
    name, ctor, kind = pool(None)[ci]
    dtype = {'float32': torch.float32, 'float64': torch.float64}[dt]
    mod = ctor()
    if dtype == torch.float64:
        mod = mod.double()
    with torch.no_grad():
        out = flat_out(mod(make_input(None, kind, si, dtype)))
    return [None if o is None else (o.numpy(), str(o.dtype)) for o in out]


def iso_refs(keys):
    """references computed in fresh processes, one per (configuration, shape, dtype): nothing that ran before in
    THIS process can have influenced them"""
    todo = [k for k in keys if k not in ISO]
    for k, v in zip(todo, rt.iso_run([{'module': 'harness.props.c15', 'func': 'iso_job', 'args': {'key': list(k)}} for k in todo])):
        ISO[k] = v
    return ISO


def close_to_iso(out, iso):
    """same structure, dtypes and values (to 1e-12 relative: bitwise equality across processes is not claimed)"""
    if isinstance(iso, tuple) and iso and iso[0] == 'error':
        return True, ''          # the isolated process could not compute it: no verdict from this comparison
    if len(out) != len(iso):
        return False, 'count %d vs %d' % (len(out), len(iso))
    for k, (a, b) in enumerate(zip(out, iso)):
        if a is None or b is None:
            if (a is None) != (b is None):
                return False, 'output %d None-ness' % k
            continue
        arr, dname = b
        if tuple(a.shape) != tuple(arr.shape):
            return False, 'output %d shape %s vs isolated %s' % (k, tuple(a.shape), tuple(arr.shape))
        if str(a.dtype) != dname:
            return False, 'output %d dtype %s vs isolated %s' % (k, a.dtype, dname)
        x = a.double().numpy(); y = arr.astype(np.float64)
        sc = max(1.0, float(np.max(np.abs(y))) if y.size else 1.0)
        tol = (1e-12 if dname == 'torch.float64' else 1e-5) * sc
        if not (np.abs(x - y) <= tol).all():
            return False, 'output %d differs from the isolated-process reference by %.3g' % (k, float(np.nanmax(np.abs(x - y))))
    return True, ''


def oracle_contention(ck, n_threads, reps):
    """all threads run the SAME configuration and shape at the same time on DIFFERENT data: shared scratch space
    or caches written during a call show up as another thread's values"""
    rng = ck.rng
    P = pool(rng)
    picks = [i for i, p in enumerate(P) if p[0].startswith(('roundtrip', 'DTCWTForward(near_sym_b', 'ScatLayer('))] + rng.sample(range(len(P)), 3 if ck.tier == 'quick' else 8)
    for ci in picks:
        name, ctor, kind = P[ci]
        si = rng.randrange(4); dt = rng.choice([torch.float32, torch.float64])
        base = make_input(rng, kind, si, dt)
        xs = [base * (t + 1) + t for t in range(n_threads)]
        mods = [ctor() for _ in range(n_threads)]
        shared = rng.random() < 0.5
        if shared:
            mods = [mods[0]] * n_threads
        if dt == torch.float64:
            for m in set(mods):
                m.double()
        with torch.no_grad():
            want = [flat_out(mods[t](xs[t])) for t in range(n_threads)]
        bad = []
        barrier = threading.Barrier(n_threads)

        def work(t):
            for r in range(reps):
                barrier.wait()
                try:
                    with torch.no_grad():
                        got = flat_out(mods[t](xs[t]))
                except Exception as e:
                    bad.append('%s raises %s under contention' % (name, type(e).__name__)); barrier.abort(); return
                ok = len(got) == len(want[t]) and all(same_val(a, b) for a, b in zip(got, want[t]))
                if not ok:
                    bad.append('%s on %s %s: thread %d, repetition %d: result differs from the same call made alone (%s instance)' % (name, tuple(xs[t].shape), dt, t, r, 'shared' if shared else 'own'))
        ths = [threading.Thread(target=work, args=(t,)) for t in range(n_threads)]
        for t in ths: t.start()
        for t in ths: t.join()
        if bad:
            ck.fail(bad[0] + ' [%d threads, %d of %d calls wrong]' % (n_threads, len(bad), n_threads * reps), {'oracle': 'contention', 'config': name, 'threads': n_threads, 'note': 're-run the check with the same VERIF_SEED'})
        else:
            ck.oracle_ok(('contention', name, si, str(dt), shared), group='contention', sample={'config': name, 'threads': n_threads, 'calls': n_threads * reps, 'shared_instance': shared})


def oracle_history(ck, n_ops, n_threads):
    rng = ck.rng
    P = pool(rng)
    # reference outputs: each (config, shape, dtype) once, on a fresh instance, in isolation
    refs = {}

    def ref(ci, si, dt):
        key = (ci, si, dt)
        if key not in refs:
            name, ctor, kind = P[ci]
            mod = ctor()
            if dt == torch.float64:
                mod = mod.double()
            with torch.no_grad():
                refs[key] = flat_out(mod(make_input(rng, kind, si, dt)))
        return refs[key]
    # the history: constructions and calls in random order over shared instances
    instances = {}
    history = []
    for _ in range(n_ops):
        ci = rng.randrange(len(P)); si = rng.randrange(4); dt = rng.choice([torch.float32, torch.float64])
        history.append((ci, si, dt, rng.random() < 0.3))
    for (ci, si, dt, _) in history:
        ref(ci, si, dt)
    dname = {torch.float32: 'float32', torch.float64: 'float64'}
    iso_keys = sorted(set((ci, si, dname[dt]) for (ci, si, dt, _) in history))
    if ck.tier == 'quick':
        iso_keys = rng.sample(iso_keys, min(len(iso_keys), 32))
    iso = iso_refs(iso_keys)
    ck.extra['isolated_process_references'] = {'computed': sum(1 for v in ISO.values() if not (isinstance(v, tuple) and v and v[0] == 'error')),
                                               'worker_errors': [v[1][-160:] for v in ISO.values() if isinstance(v, tuple) and v and v[0] == 'error'][:3]}
    failures = []
    retained = []           # (description, live output objects, reference): re-checked after the whole history
    lock = threading.Lock()

    def work(items, barrier):
        if barrier is not None:
            barrier.wait()
        for (ci, si, dt, grad) in items:
            name, ctor, kind = P[ci]
            key = (ci, dt)
            with lock:
                if key not in instances:
                    m = ctor()
                    instances[key] = m.double() if dt == torch.float64 else m
                mod = instances[key]
            x = make_input(rng, kind, si, dt)
            snap = x.clone()
            try:
                if grad:
                    xg = x.clone().requires_grad_(True)
                    raw = mod(xg)
                    out = flat_out(raw)
                    # the recorded call is a value too: pulling the same cotangent back twice through it gives the same gradient
                    # (a backward pass that consumes or overwrites what the forward pass stored makes the result depend on history)
                    def _live(o):
                        if isinstance(o, torch.Tensor):
                            return [o] if (o.requires_grad and o.numel()) else []
                        return [] if o is None else [t for u in o for t in _live(u)]
                    outs = _live(raw)
                    if outs:
                        cots = [torch.cos(torch.arange(o.numel(), dtype=torch.float64)).reshape(o.shape).to(o.dtype) for o in outs]
                        g1 = torch.autograd.grad(outs, xg, cots, retain_graph=True, allow_unused=True)[0]
                        g2 = torch.autograd.grad(outs, xg, cots, retain_graph=True, allow_unused=True)[0]
                        if (g1 is None) != (g2 is None) or (g1 is not None and not torch.equal(g1, g2)):
                            with lock:
                                failures.append(('%s on %s %s: back-propagating the same cotangent a second time through the same recorded call gives another gradient (max |diff| %.3g): the first backward pass changed what the call had recorded'
                                                 % (name, tuple(x.shape), dt, float((g1 - g2).abs().max()) if g1 is not None and g2 is not None else float('nan')), (ci, si, str(dt))))
                else:
                    with torch.no_grad():
                        out = flat_out(mod(x))
            except Exception as e:
                with lock:
                    failures.append(('%s on %s %s raises %s inside a history' % (name, tuple(x.shape), dt, type(e).__name__), (ci, si, str(dt))))
                continue
            if not torch.equal(x, snap):
                with lock:
                    failures.append(('%s modified its input tensor' % name, (ci, si, str(dt))))
            want = ref(ci, si, dt)
            ok = len(out) == len(want) and all(same_val(a, b) for a, b in zip(out, want))
            ik = (ci, si, dname[dt])
            if ok and ik in iso:
                ok2, why2 = close_to_iso(out, iso[ik])
                if not ok2:
                    ok = False
                    with lock:
                        failures.append(('%s on %s %s: %s (the reference ran alone in a fresh process; this call ran after other calls)' % (name, tuple(x.shape), dt, why2), (ci, si, str(dt))))
            elif not ok:
                with lock:
                    det = 'outputs %d vs %d' % (len(out), len(want))
                    if len(out) == len(want):
                        for k_, (a_, b_) in enumerate(zip(out, want)):
                            if (a_ is None) != (b_ is None):
                                det = 'output %d: None-ness differs' % k_; break
                            if a_ is not None and (a_.shape != b_.shape or a_.dtype != b_.dtype):
                                det = 'output %d: %s %s vs %s %s' % (k_, tuple(a_.shape), a_.dtype, tuple(b_.shape), b_.dtype); break
                            if a_ is not None and not same_val(a_, b_):
                                det = 'output %d: max |diff| %.3g (scale %.3g)' % (k_, float((a_.double() - b_.double()).abs().max()), float(b_.abs().max())); break
                    failures.append(('%s on %s %s: result differs from the isolated reference call (history/thread dependence): %s' % (name, tuple(x.shape), dt, det), (ci, si, str(dt))))
            if ok:
                with lock:
                    if len(retained) < 40:
                        live = mod(x) if not grad else None      # keep the module's own returned objects alive
                        if live is not None:
                            retained.append(('%s on %s %s' % (name, tuple(x.shape), dt), live, flat_out(live)))      # snapshot of what was returned
    if n_threads <= 1:
        work(history, None)
    else:
        barrier = threading.Barrier(n_threads)
        chunks = [history[i::n_threads] for i in range(n_threads)]
        ths = [threading.Thread(target=work, args=(c, barrier)) for c in chunks]
        for t in ths: t.start()
        for t in ths: t.join()
    for desc, live, want in retained:
        now = live_flat(live)
        ok = len(now) == len(want) and all((a is None and b is None) or (a is not None and b is not None and a.shape == b.shape and torch.equal(a, b)) for a, b in zip(now, want))
        if not ok:
            failures.append((desc + ': a result returned earlier was changed by later calls', None))
    for desc, key in failures[:5]:
        ck.fail(desc + ' [threads=%d]' % n_threads, {'oracle': 'history', 'threads': n_threads, 'n_ops': n_ops, 'note': 're-run the check with the same VERIF_SEED'})
    if not failures:
        for (ci, si, dt, g) in history:
            ck.oracle_ok((P[ci][0], si, str(dt), g, n_threads), group='threads=%d' % n_threads)
        ck.oracle['samples'].append({'history_len': n_ops, 'threads': n_threads, 'first_ops': [(P[c][0], s, str(d), g) for c, s, d, g in history[:4]]})


def oracle_dtype_history(ck):
    """one instance, calls with another dtype in between (which the library may reject): the later
    result must equal that of a fresh instance"""
    from pytorch_wavelets import DWTForward, DWTInverse, DWT1DForward, DTCWTForward, ScatLayer
    old = torch.get_default_dtype()
    for build_dt in (torch.float64, torch.float32):
        for name, ctor, shape in [('DWTForward(db3,symmetric,2)', lambda: DWTForward(J=2, wave='db3', mode='symmetric'), (1, 2, 16, 12)),
                                  ('DWT1DForward(db2,zero,2)', lambda: DWT1DForward(J=2, wave='db2', mode='zero'), (1, 2, 19)),
                                  ('DTCWTForward(J=2)', lambda: DTCWTForward(J=2), (1, 1, 12, 12)),
                                  ('ScatLayer', lambda: ScatLayer(), (1, 1, 8, 8))]:
            try:
                torch.set_default_dtype(build_dt)
                mod = ctor(); fresh = ctor()
            finally:
                torch.set_default_dtype(old)
            other = torch.float32 if build_dt == torch.float64 else torch.float64
            x = torch.tensor(np.random.default_rng(7).standard_normal(shape), dtype=build_dt)
            with torch.no_grad():
                try:
                    mod(x.to(other))            # may legitimately raise (dtype mismatch); its effect on later calls is what matters
                except Exception:
                    pass
                try:
                    a = flat_out(mod(x)); b = flat_out(fresh(x))
                except Exception as e:
                    ck.fail('%s built in %s: a call in the module dtype raises %s after a call with %s' % (name, build_dt, type(e).__name__, other),
                            {'oracle': 'dtype-history', 'module': name}); continue
            ok = len(a) == len(b) and all((u is None and v is None) or (u is not None and v is not None and u.dtype == v.dtype and torch.equal(u, v)) for u, v in zip(a, b))
            if ok:
                ck.oracle_ok(('dtype-history', name, str(build_dt)), group='dtype-history', sample={'module': name, 'built': str(build_dt), 'intervening_call': str(other)})
            else:
                ck.fail('%s built in %s: the result after an intervening %s call differs from a fresh instance' % (name, build_dt, other), {'oracle': 'dtype-history', 'module': name})


def oracle_pyramid_inputs(ck):
    """inverse modules must not modify the coefficient lists / tensors passed to them"""
    from pytorch_wavelets import DWTInverse, DWT1DInverse, DTCWTInverse, DWTForward, DWT1DForward, DTCWTForward
    rng = ck.rng
    for name, f, i, x in [('DWTInverse', DWTForward(J=2, wave='db2', mode='symmetric'), DWTInverse(wave='db2', mode='symmetric'), torch.randn(1, 2, 12, 10)),
                          ('DWT1DInverse', DWT1DForward(J=2, wave='db2', mode='periodization'), DWT1DInverse(wave='db2', mode='periodization'), torch.randn(1, 2, 13)),
                          ('DTCWTInverse', DTCWTForward(J=2), DTCWTInverse(), torch.randn(1, 1, 10, 14))]:
        yl, yh = f(x)
        yh = list(yh)
        if name != 'DTCWTInverse':
            yh[0] = None
        snap_l = yl.clone(); snap_h = [None if h is None else h.clone() for h in yh]; ids = [id(h) for h in yh]
        i((yl, yh))
        ok = torch.equal(yl, snap_l) and len(yh) == len(snap_h) and all((a is None and b is None) or (a is not None and b is not None and torch.equal(a, b)) for a, b in zip(yh, snap_h)) and ids == [id(h) for h in yh]
        if ok:
            ck.oracle_ok(('pyramid-unchanged', name), group='arguments-unchanged', sample={'module': name})
        else:
            ck.fail('%s modified the coefficient list or tensors passed to it' % name, {'oracle': 'pyramid', 'module': name})


def oracle_layout_arguments(ck):
    """every band-pass layout (o_dim, ri_dim), batch / channel counts of one included: DTCWTInverse leaves the tensors of the
    pyramid it is given unchanged (as produced by the forward pass AND as dense copies), and back-propagation through
    DTCWTForward leaves the cotangent it is handed unchanged"""
    from pytorch_wavelets import DTCWTInverse, DTCWTForward
    pairs = [(o, r) for o in range(6) for r in range(6) if o != r] + [(2, -1), (-4, -1), (1, -6)]
    for (o, r) in pairs:
        for (n, c) in [(1, 1), (1, 2), (2, 2)]:
            try:
                f = DTCWTForward(J=2, o_dim=o, ri_dim=r); inv = DTCWTInverse(o_dim=o, ri_dim=r)
            except Exception:
                continue
            x = torch.randn(n, c, 8, 12)
            for dense in (False, True):
                with torch.no_grad():
                    yl, yh = f(x)
                yh = [h.contiguous().clone() if dense else h for h in yh]
                snap_l = yl.clone(); snap_h = [h.clone() for h in yh]
                with torch.no_grad():
                    inv((yl, yh))
                if torch.equal(yl, snap_l) and all(torch.equal(a, b) for a, b in zip(yh, snap_h)):
                    ck.oracle_ok(('layout-args', o, r, n, c, dense), group='arguments-unchanged')
                else:
                    ck.fail('DTCWTInverse(o_dim=%d, ri_dim=%d) modified the pyramid tensors passed to it (N=%d, C=%d, %s tensors)' % (o, r, n, c, 'dense' if dense else 'forward-output'),
                            {'oracle': 'layout-args', 'o': o, 'ri': r, 'n': n, 'c': c, 'dense': dense}); return
            xg = x.clone().requires_grad_(True)
            yl, yh = f(xg)
            for j in range(2):
                g = torch.randn_like(yh[j]).contiguous(); snap = g.clone()
                yh[j].backward(g, retain_graph=True)
                if not torch.equal(g, snap):
                    ck.fail('back-propagation through DTCWTForward(o_dim=%d, ri_dim=%d) modified the cotangent tensor handed to it (level %d, N=%d, C=%d)' % (o, r, j + 1, n, c),
                            {'oracle': 'layout-cotangent', 'o': o, 'ri': r, 'n': n, 'c': c, 'level': j + 1}); return
            g = torch.randn_like(yl); snap = g.clone()
            yl.backward(g)
            if not torch.equal(g, snap):
                ck.fail('back-propagation through DTCWTForward(o_dim=%d, ri_dim=%d) modified the low-pass cotangent handed to it' % (o, r), {'oracle': 'layout-cotangent', 'o': o, 'ri': r, 'n': n, 'c': c, 'level': 0}); return
            ck.oracle_ok(('layout-cotangent', o, r, n, c), group='arguments-unchanged')


def run(ck):
    from ..translate import regen_all
    rt.setup_torch()
    torch.set_default_dtype(torch.float32)        # the public default: modules build float32 buffers
    q = ck.tier == 'quick'
    ck.trusted = TRUSTED[:3] + ['the cache state machine lean/WaveletsVerif/Model/Cache.lean is tied to coeffs._load_from_file by the trace correspondence',
                                'thread scheduling inside PyTorch and the GIL are runtime the model cannot exhibit: the thread oracle samples schedules, it does not enumerate them']
    ck.extra['module'] = MODULE
    ck.extra['rule'] = ('trace correspondence: random histories of _load_from_file calls (real table names, unknown names, key sets incl. unknown keys) vs the Lean cache state machine: '
                        'result kind and cache membership after every call; oracle: random histories of constructions and calls over a pool of 20 module configurations x shapes x dtypes x autograd '
                        'on/off, from 1..8 threads released by a barrier: arguments byte-identical afterwards, every output bit-identical to a reference call on a fresh instance (integer-valued data, so '
                        'bitwise equality is sound) and equal to 1e-12 to a reference computed ALONE IN A FRESH PROCESS; contention: 4 threads, same configuration and shape, different data, '
                        'barrier-released repetitions, each result bit-identical to the same call made alone; distinct by (configuration, shape, dtype, grad, threads)')
    if not getattr(ck, 'no_lean', False):
        ck.lean = rt.lean_check(PROP, MODULE, THEOREMS, regen=regen_all)
    st = rt.correspond('cache-trace', cache_cases(ck, 40 if q else 400), {})
    ck.corr.append(st)
    try:
        for nt in ([1, 4] if q else [1, 2, 4, 8]):
            rt.guard(ck, oracle_history, ck, 60 if q else 600, nt)
        rt.guard(ck, oracle_contention, ck, 4, 12 if q else 60)
        rt.guard(ck, oracle_pyramid_inputs, ck)
        rt.guard(ck, oracle_layout_arguments, ck)
        from .. import adoption
        rt.guard(ck, adoption.run, ck, ('load', 'f32-double-load'))
        rt.guard(ck, oracle_dtype_history, ck)
        if ((ck.lean is not None and not ck.lean.ok) or st.mismatches) and not ck.failures:
            for nt in (1, 2, 8):
                rt.guard(ck, oracle_history, ck, 200, nt)
    finally:
        torch.set_default_dtype(torch.float64)


def replay(ck, path):
    d = load_replay(path)
    os.environ['VERIF_SEED'] = str(d.get('seed', 0))
    ck2 = rt.Check(PROP, d.get('tier', 'quick')); ck2.no_lean = True
    run(ck2)
    for fl in ck2.failures:
        print('REPLAY-FAILS: ' + fl['desc'])
    if not ck2.failures:
        print('REPLAY-PASSES')
    return 1 if ck2.failures else 0
