"""C10 — DWT synthesis equals PyWavelets on arbitrary coefficient pyramids."""
import numpy as np
from .. import rt, gen, proto
from .. import oracle_pywt as O
from ..dwt_common import *
from ..impl_dwt import IMPL

PROP = 'C10'
MODULE = 'WaveletsVerif.Properties.C10'
THEOREMS = ['WV.C10.sfb1dCh_eq_idwt', 'WV.C10.step_eq', 'WV.C10.DWT1DInverse_eq_waverec', 'WV.C10.sfb1dCh_per_eq_idwt_partial', 'WV.C10.SFB2D_forward_eq_idwt2', 'WV.C10.step_eq2', 'WV.C10.DWTInverse_eq_waverec2',
            'WV.C01Z.sfb1dCh_per_gen', 'WV.C01Z.sfb1dCh_zero_gen', 'WV.C01Z.sfb1d_pad_gives_length', 'WV.C10M.SFB2D_forward_multi', 'WV.C10M.step_eqM', 'WV.C10M.DWTInverse_multi', 'WV.C10M.DWTInverse_multi_eq_waverec2',
            'WV.C10P.SFB2D_forward_per_eq_idwt2', 'WV.C10P.step_eq2P', 'WV.C10P.DWTInverse_per_eq_waverec2', 'WV.C02Q.step_eq_per', 'WV.C02Q.DWT1DInverse_per_eq_waverec', 'WV.C19Z.rollPy_gen', 'WV.C19Z.prep_mirrors_gen', 'WV.C10Z.dwtinv2_crop_gen', 'WV.C10Z.module_glue_gen', 'WV.C10Z.writes_into_parameters_gen', 'WV.C07W.idwt_zero_local']
KF = 'C10-periodization-short'
OPS = ['sfb1d', 'SFB1D_fwd', 'SFB2D_fwd', 'DWT1DInverse', 'DWTInverse', 'sfb2d']


def oracle_inv(ck, dims, m, filt, yl, yh, tol=0.0, named=None):
    """real DWT1DInverse / DWTInverse vs pywt.waverec / waverec2 (None = zeros)"""
    L = len(filt[0])
    try:
        if dims == 1:
            ref = O.waverec(yl, yh, O.wavelet(filt[0][::-1], filt[1][::-1], filt[0], filt[1]), m)
        else:
            fr = filt[2:] if len(filt) == 4 else filt[:2]
            ref = O.waverec2(yl, yh, O.wavelet(filt[0][::-1], filt[1][::-1], filt[0], filt[1]),
                             O.wavelet(fr[0][::-1], fr[1][::-1], fr[0], fr[1]), m)
    except Exception:
        return None
    if dims == 1:
        case = rt.Case('Z', 'DWT1DInverse', [m], [filt[0], filt[1], yl] + list(yh))
        los = [yl.shape[-1]] + [h.shape[-1] for h in yh[1:] if h is not None]
        short = per_short_inv([h.shape[-1] for h in yh if h is not None] + [yl.shape[-1]], L, m)
    else:
        case = rt.Case('Z', 'DWTInverse', [m, len(filt)], list(filt) + [yl] + list(yh))
        Lr = len(filt[2]) if len(filt) == 4 else L
        short = (per_short_inv([h.shape[-2] for h in yh if h is not None] + [yl.shape[-2]], L, m) or
                 per_short_inv([h.shape[-1] for h in yh if h is not None] + [yl.shape[-1]], Lr, m))
    from .. import impl_dwt
    with impl_dwt.named(named):
        got = rt.run_impl(case, IMPL)
    desc = '%dD inverse mode=%s J=%d L=%d yl=%s none=%s %s' % (dims, gen.MODE_NAME[m], len(yh), L, tuple(yl.shape),
                                                               [h is None for h in yh], named or 'integer filters')
    replay = {'oracle': 'inv', 'dims': dims, 'm': m, 'filt': [arr_json(f) for f in filt], 'yl': arr_json(yl),
              'yh': [arr_json(h) for h in yh], 'tol': tol, 'named': named}
    if isinstance(got, tuple):
        ck.fail(desc + ': raises %s: %s' % (got[1], got[2]), replay)
        return 'raise'
    ok, why = same(got, [ref], tol)
    if ok:
        ck.oracle_ok((dims, m, len(yh), L, tuple(yl.shape), named, tuple(h is None for h in yh)), group='inv%dd' % dims,
                     sample={'oracle': 'pywt.waverec%s' % ('2' if dims == 2 else ''), 'mode': gen.MODE_NAME[m], 'J': len(yh), 'L': L,
                             'yl_shape': list(yl.shape), 'none_levels': [h is None for h in yh], 'wavelet': named or 'random integer bank',
                             'out_head': [float(v) for v in np.ravel(got[0])[:4]]})
        return None
    kk = None
    if short and (tol > 0.0 or model_agrees(case, IMPL)):
        kk = KF
    ck.fail(desc + ': ' + why, replay, known_key=kk)
    return 'diff'


def make_pyramid(rng, dims, nb, c, size, L, Lr, m, J, fl=None, p_none=0.25):
    if dims == 1:
        hs, nl = pyramid_shapes_1d(size, L, m, J)
        mk = (lambda sh: gen.int_tensor(rng, sh)) if fl is None else (lambda sh: fl(sh))
        yl = mk((nb, c, nl)); yh = []
        for j in range(J):
            can_none = True if j + 1 == J else (synlen(m, hs[j + 1], L) == hs[j])
            yh.append(None if (can_none and rng.random() < p_none) else mk((nb, c, hs[j])))
        return yl, yh
    H, W = size
    hh, nlh = pyramid_shapes_1d(H, L, m, J); hw, nlw = pyramid_shapes_1d(W, Lr, m, J)
    mk = (lambda sh: gen.int_tensor(rng, sh)) if fl is None else (lambda sh: fl(sh))
    yl = mk((nb, c, nlh, nlw)); yh = []
    for j in range(J):
        can_none = True if j + 1 == J else (synlen(m, hh[j + 1], L) == hh[j] and synlen(m, hw[j + 1], Lr) == hw[j])
        yh.append(None if (can_none and rng.random() < p_none) else mk((nb, c, 3, hh[j], hw[j])))
    return yl, yh


def oracle(ck, extended):
    rng = ck.rng
    import pywt
    q = ck.tier == 'quick'
    # deterministic witness of the recorded finding (length-6 filters, bands of length 1, periodization)
    rt.guard(ck, oracle_inv, ck, 1, 2, (np.array([1., 2., 3., 4., -1., 2.]), np.array([2., -1., 3., 1., 1., -2.])), np.array([[[3.]]]), [np.array([[[-2.]]])])
    n_int = (160 if q else 1500) * (3 if extended else 1)
    for it in range(n_int):
        L = 2 * rng.randint(1, 6 if q else 10)
        m = rng.choice(gen.MODES5); J = rng.randint(1, 3)
        g0 = gen.int_filter(rng, L); g1 = gen.int_filter(rng, L)
        nb, c = rng.choice([(1, 1), (2, 1), (1, 2)])
        if it % 2 == 0:
            yl, yh = make_pyramid(rng, 1, nb, c, gen.pick_len(rng, L, 30), L, L, m, J)
            rt.guard(ck, oracle_inv, ck, 1, m, (g0, g1), yl, yh)
        else:
            L2 = 2 * rng.randint(1, 4)
            four = rng.random() < 0.5
            yl, yh = make_pyramid(rng, 2, nb, c, (gen.pick_len(rng, L, 18), gen.pick_len(rng, L2, 18)), L, L2 if four else L, m, J)
            filt = (g0, g1, gen.int_filter(rng, L2), gen.int_filter(rng, L2)) if four else (g0, g1)
            rt.guard(ck, oracle_inv, ck, 2, m, filt, yl, yh)
    # the extremes of the filter range: the longest wavelets over a run of CONSECUTIVE band lengths (whatever an
    # implementation switches on - filter length, size parity, a fast length - changes somewhere in such a run), 1-D and 2-D
    for name in ('db38', 'coif17'):
        w = pywt.Wavelet(name); L = w.dec_len
        for n in (range(L // 2, L // 2 + 40) if not q else range(L // 2, L // 2 + 40, 1)):
            m = gen.MODES5[n % 5]
            yl = gen.float_tensor(ck.nprng, (1, 1, n)); yh = [gen.float_tensor(ck.nprng, (1, 1, n))]
            rt.guard(ck, oracle_inv, ck, 1, m, (np.array(w.rec_lo), np.array(w.rec_hi)), yl, yh, tol=1e-9, named=name)
        for (a, b) in [(L // 2 + 3, 40), (41, L // 2 + 6)]:
            yl = gen.float_tensor(ck.nprng, (1, 1, a, b)); yh = [gen.float_tensor(ck.nprng, (1, 1, 3, a, b))]
            rt.guard(ck, oracle_inv, ck, 2, rng.choice([0, 1, 6]), (np.array(w.rec_lo), np.array(w.rec_hi)), yl, yh, tol=1e-9, named=name)
    # pyramids of signals / images above every blocking / tiling threshold (gen.scale_shapes_*), every mode, per-axis pairs
    wl = ['db2', 'bior2.4', 'sym5', 'db7', 'db4', 'haar']
    fl1 = lambda sh: gen.float_tensor(ck.nprng, sh)
    from .. import history as _hist
    for k, shp in enumerate(gen.scale_shapes_1d(ck.tier)):
        for m in gen.MODES5:
            w = pywt.Wavelet(wl[(k + m) % len(wl)]); L = w.dec_len
            yl, yh = make_pyramid(rng, 1, shp[0], shp[1], shp[2], L, L, m, 1 + (k + m) % 3, fl1)
            # every other case with the process default dtype at CALL time back at float32 (history bit 0x8000), deterministically
            with _hist.force(0x8000 if (k + m) % 2 else 0):
                rt.guard(ck, oracle_inv, ck, 1, m, (np.array(w.rec_lo), np.array(w.rec_hi)), yl, yh, tol=1e-9, named=w.name)
    for k, shp in enumerate(gen.scale_shapes_2d(ck.tier)):
        for m in gen.MODES5:
            w = pywt.Wavelet(wl[(k + m) % len(wl)]); w2 = pywt.Wavelet(wl[(k + m + 3) % len(wl)]); four = (k + m) % 3 == 0
            yl, yh = make_pyramid(rng, 2, shp[0], shp[1], (shp[2], shp[3]), w.dec_len, w2.dec_len if four else w.dec_len, m, 1 + (k + m) % 3, fl1)
            filt = (np.array(w.rec_lo), np.array(w.rec_hi), np.array(w2.rec_lo), np.array(w2.rec_hi)) if four else (np.array(w.rec_lo), np.array(w.rec_hi))
            with _hist.force(0x8000 if (k + m) % 2 else 0):
                rt.guard(ck, oracle_inv, ck, 2, m, filt, yl, yh, tol=1e-9, named=None if four else w.name)
    for name in named_wavelets(rng, 40 if q else 106):
        w = pywt.Wavelet(name); L = w.dec_len
        m = rng.choice(gen.MODES5); J = rng.randint(1, 3)
        fl = lambda sh: gen.float_tensor(ck.nprng, sh, rng.choice([1.0, 1e3]))
        if rng.random() < 0.5:
            yl, yh = make_pyramid(rng, 1, 1, 2, max(2, rng.choice([L + rng.randint(0, 9), rng.randint(2, 40)])), L, L, m, J, fl)
            rt.guard(ck, oracle_inv, ck, 1, m, (np.array(w.rec_lo), np.array(w.rec_hi)), yl, yh, tol=1e-9, named=name)
        else:
            yl, yh = make_pyramid(rng, 2, 1, 1, (max(2, rng.choice([L + rng.randint(0, 5), rng.randint(2, 24)])), rng.randint(2, 24)), L, L, m, J, fl)
            rt.guard(ck, oracle_inv, ck, 2, m, (np.array(w.rec_lo), np.array(w.rec_hi)), yl, yh, tol=1e-9, named=name)


def spec_check(ck):
    rng = ck.rng
    lines, exp = [], []
    for it in range(100 if ck.tier == 'quick' else 1000):
        L = 2 * rng.randint(1, 6); m = rng.choice(gen.MODES5); J = rng.randint(1, 3)
        g0 = gen.int_filter(rng, L); g1 = gen.int_filter(rng, L)
        w = O.wavelet(g0[::-1], g1[::-1], g0, g1)
        try:
            if it % 2 == 0:
                yl, yh = make_pyramid(rng, 1, 1, 1, gen.pick_len(rng, L, 24), L, L, m, J)
                yl = yl[0, 0]; yh = [None if h is None else h[0, 0] for h in yh]
                r = O.waverec(yl, yh, w, m)
                lines.append(proto.to_line('Z', 'spec_waverec', [m], [g0, g1, yl] + yh)); exp.append([r])
            else:
                L2 = 2 * rng.randint(1, 4); s0 = gen.int_filter(rng, L2); s1 = gen.int_filter(rng, L2)
                yl, yh = make_pyramid(rng, 2, 1, 1, (gen.pick_len(rng, L, 14), gen.pick_len(rng, L2, 14)), L, L2, m, J)
                yl = yl[0, 0]; yh = [None if h is None else h[0, 0] for h in yh]
                r = O.waverec2(yl, yh, w, O.wavelet(s0[::-1], s1[::-1], s0, s1), m)
                lines.append(proto.to_line('Z', 'spec_waverec2', [m], [g0, g1, s0, s1, yl] + yh)); exp.append([r])
        except Exception:
            continue
    outs = proto.run_driver(lines)
    bad = [ln[:300] for ln, o, e in zip(lines, outs, exp) if o == 'raise' or not same(e, o)[0]]
    ck.extra['spec_vs_pywt'] = {'evaluations': len(lines), 'mismatches': len(bad)}
    if bad:
        raise RuntimeError('Lean specification disagrees with PyWavelets (machinery error, not a verdict): ' + bad[0])


def run(ck):
    std_run(ck, PROP, MODULE, THEOREMS, OPS, 360, 3000, oracle,
            rule='correspondence: sfb1d (whole operators by unit impulses and generic integer data), SFB1D/SFB2D, sfb2d, DWT1DInverse/DWTInverse with None levels, '
                 'random asymmetric integer filters L 2..12/20, band lengths 1..; oracle: the real inverse modules vs pywt.waverec/waverec2 on arbitrary integer pyramids of '
                 'forward-compatible shape (exact) and on named wavelets (1e-9); distinct by (op, params, shapes, None mask), non-trivial = non-constant output')
    spec_check(ck)


def replay(ck, path):
    rt.setup_torch()
    d = load_replay(path)
    f = d.get('failure', {}).get('replay')
    if not f:
        print('replay file names no failing input: %s' % d.get('broken_obligations'))
        return 1
    oracle_inv(ck, f['dims'], f['m'], tuple(arr_from(a) for a in f['filt']), arr_from(f['yl']), [arr_from(h) for h in f['yh']], f['tol'], f['named'])
    for fl in ck.failures:
        print('REPLAY-FAILS: ' + fl['desc'])
    for k, (t, n) in ck.known_hits.items():
        print('REPLAY-KNOWN-FINDING: ' + t)
    if not ck.failures and not ck.known_hits:
        print('REPLAY-PASSES')
    return 1 if ck.failures else 0
