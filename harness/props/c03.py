"""C03 — DTCWT analysis equals the reference dual-tree implementation."""
import numpy as np
from .. import rt, gen, proto
from .. import oracle_dtcwt as OD
from ..dtcwt_common import *
from ..impl_dtcwt import IMPL

PROP = 'C03'
MODULE = 'WaveletsVerif.Properties.C03'
THEOREMS = ['WV.C03.colfilter1_eq_ref', 'WV.C03.coldfilt1_eq_ref', 'WV.C03.interleave2_get', 'WV.C03.coldfilt1_raises_iff',
            'WV.C03T.reflect_eq_symIdx', 'WV.C03T.symm_pad_1d_eq', 'WV.C03T.symmPad_eq_gather',
            'WV.C03P.alongH_alongW_comm', 'WV.C03P.GL_colfilter', 'WV.C03P.GL_coldfilt', 'WV.C03P.fwdJ1_eq_ref', 'WV.C03P.fwdJ2_eq_ref', 'WV.C03P.dtcwt_forward_eq_ref', 'WV.C01Z.extendEven_gen', 'WV.C19Z.prep_mirrors_gen', 'WV.C10Z.dtcwt_glue_gen']
OPS = ['colfilter', 'rowfilter', 'coldfilt', 'rowdfilt', 'q2c', 'fwd_j1', 'fwd_j2plus', 'DTCWTForward']


def oracle_fwd(ck, b, q, bt, qt, J, x, named):
    """real DTCWTForward (default layout) vs dtcwt.Transform2d.forward, per (n,c) slice"""
    h0o, g0o, h1o, g1o = [np.ravel(v) for v in bt]
    h0a, h0b, g0a, g0b, h1a, h1b, g1a, g1b = [np.ravel(v) for v in qt]
    desc = 'DTCWTForward J=%d shape=%s filters=%s' % (J, tuple(x.shape), named)
    replay = {'oracle': 'fwd', 'J': J, 'x': arr_json(x), 'named': named, 'bt': [arr_json(np.ravel(v)) for v in bt], 'qt': [arr_json(np.ravel(v)) for v in qt]}
    from .. import impl_dtcwt
    with impl_dtcwt.named(b, q):
        got = rt.run_impl(rt.Case('Q', 'DTCWTForward', [2, -1, 1, J, 0, 0], [h0o, h1o, h0a, h0b, h1a, h1b, x]), IMPL)
    if isinstance(got, tuple):
        ck.fail(desc + ': raises %s: %s' % (got[1], got[2]), replay); return 'raise'
    for n in range(x.shape[0]):
        for c in range(x.shape[1]):
            low, highs = OD.forward(x[n, c], b, q, J)
            ok, why = same([got[0][n, c]] + [g[n, c] for g in got[1:]], [low] + [OD.to_canon(h) for h in highs], 1e-9)
            if not ok:
                ck.fail(desc + ': slice (%d,%d) differs from the reference: %s' % (n, c, why), replay); return 'diff'
    ck.oracle_ok((J, tuple(x.shape), named if isinstance(named, str) else 'int'), group='fwd',
                 sample={'oracle': 'dtcwt.Transform2d.forward', 'J': J, 'shape': list(x.shape), 'filters': named, 'low_shape': list(got[0].shape),
                         'high_shapes': [list(g.shape) for g in got[1:]]})
    return None


def oracle_fwd_converted(ck, b, s, J, x):
    """a named module built under the float32 default, OTHER named modules constructed after it, then converted with
    .double() and called: still the reference transform for ITS tables (up to the float32 rounding of its taps)"""
    import torch
    from pytorch_wavelets import DTCWTForward, DTCWTInverse
    desc = 'DTCWTForward(%s/%s, J=%d) built in float32, other instances constructed, .double(), shape=%s' % (b, s, J, tuple(x.shape))
    replay = {'oracle': 'fwd-converted', 'b': b, 's': s, 'J': J, 'x': arr_json(x)}
    old = torch.get_default_dtype()
    try:
        torch.set_default_dtype(torch.float32)
        mod = DTCWTForward(biort=b, qshift=s, J=J)
        for (b2, s2) in [(bb, ss) for bb in OD.BIORTS for ss in OD.QSHIFTS if (bb, ss) != (b, s)][::5]:
            DTCWTForward(biort=b2, qshift=s2, J=2); DTCWTInverse(biort=b2, qshift=s2)
        mod = mod.double()
    finally:
        torch.set_default_dtype(old)
    with torch.no_grad():
        yl, yh = mod(torch.tensor(x, dtype=torch.float64))
    for n in range(x.shape[0]):
        for c in range(x.shape[1]):
            low, highs = OD.forward(x[n, c], b, s, J)
            got = [yl[n, c].numpy()] + [h[n, c].numpy() for h in yh]
            want = [low] + [OD.to_canon(h) for h in highs]
            for k, (g_, w_) in enumerate(zip(got, want)):
                sc = max(1.0, float(np.max(np.abs(w_))))
                if g_.shape != w_.shape or not float(np.max(np.abs(g_ - w_))) <= 1e-5 * sc:
                    ck.fail(desc + ': output %d of slice (%d,%d) differs from the reference by %.3g (scale %.3g)' % (
                        k, n, c, float(np.max(np.abs(g_ - w_))) if g_.shape == w_.shape else float('nan'), sc), replay); return 'diff'
    ck.oracle_ok(('converted', b, s, J, tuple(x.shape)), group='fwd-converted', sample={'what': desc})
    return None


def oracle_fwd_special(ck, b, s, J, x, val, pos):
    """an image with ONE non-finite pixel: wherever the reference transform of that image is finite, so is the library's, with the same
    value (the six orientations of a quad come from three sub-images with different footprints: a non-finite pixel reaches each through
    its own filters only)"""
    import torch
    from pytorch_wavelets import DTCWTForward
    x = x.copy(); x[(0, 0) + pos] = val
    desc = 'DTCWTForward(%s/%s, J=%d) on %s with %r at pixel %s' % (b, s, J, tuple(x.shape), val, pos)
    replay = {'oracle': 'fwd-special', 'b': b, 's': s, 'J': J, 'x': arr_json(np.nan_to_num(x, nan=0.0, posinf=0.0, neginf=0.0)), 'val': repr(val), 'pos': list(pos)}
    mod = DTCWTForward(biort=b, qshift=s, J=J).double()
    with torch.no_grad():
        yl, yh = mod(torch.tensor(x, dtype=torch.float64))
    with np.errstate(all='ignore'):
        low, highs = OD.forward(x[0, 0], b, s, J)
    got = [yl[0, 0].numpy()] + [h[0, 0].numpy() for h in yh]
    want = [low] + [OD.to_canon(h) for h in highs]
    nfin = 0
    for k, (g_, w_) in enumerate(zip(got, want)):
        if g_.shape != w_.shape:
            ck.fail(desc + ': output %d has shape %s, reference %s' % (k, g_.shape, w_.shape), replay); return 'shape'
        m = np.isfinite(w_)
        nfin += int((~m).sum())
        sc = max(1.0, float(np.max(np.abs(w_[m]))) if m.any() else 1.0)
        bad = m & ~(np.isfinite(g_) & (np.abs(np.where(np.isfinite(g_), g_, 0.0) - np.where(m, w_, 0.0)) <= 1e-5 * sc))
        if bad.any():
            idx = tuple(int(v[0]) for v in np.nonzero(bad))
            ck.fail(desc + ': output %d at %s is %r where the reference transform of the same image is finite (%r) [%d such coefficients]' % (
                k, idx, float(g_[idx]), float(w_[idx]), int(bad.sum())), replay); return 'leak'
    ck.oracle_ok(('special', b, s, J, repr(val)), group='fwd-special', sample={'what': desc, 'non_finite_in_reference': nfin})
    return None


def oracle(ck, extended):
    rng = ck.rng
    q = ck.tier == 'quick'
    pairs = [(b, s) for b in OD.BIORTS for s in OD.QSHIFTS]
    for (b, s) in (rng.sample(pairs, 5) if q else pairs):
        for val in (float('nan'), float('inf')):
            H = rng.randint(12, 24) * 2; W = rng.randint(12, 24) * 2
            rt.guard(ck, oracle_fwd_special, ck, b, s, rng.randint(1, 2), gen.float_tensor(ck.nprng, (1, 1, H, W)), val, (rng.randint(5, H - 6), rng.randint(5, W - 6)))
    for (b, s) in (rng.sample(pairs, 8) if q else pairs * 3):
        bt, qt = OD.lib_tables(b, s)
        J = rng.randint(1, 3 if q else 5)
        H = rng.randint(2, 40); W = rng.randint(2, 40)
        x = gen.float_tensor(ck.nprng, (rng.randint(1, 2), rng.randint(1, 2), H, W), rng.choice([1.0, 100.0]))
        rt.guard(ck, oracle_fwd, ck, b, s, bt, qt, J, x, '%s/%s' % (b, s))
    for _ in range(2 if q else 12):
        b, s = rng.choice(pairs)
        rt.guard(ck, oracle_fwd_converted, ck, b, s, rng.randint(1, 3), gen.float_tensor(ck.nprng, (1, 2, rng.randint(4, 24), rng.randint(4, 24))))
    for b in OD.BIORTS:                                  # the smallest images with every level-1 family
        for (H, W) in [(2, 2), (2, 11), (7, 3), (8, 8)]:
            s = rng.choice(OD.QSHIFTS); bt, qt = OD.lib_tables(b, s)
            rt.guard(ck, oracle_fwd, ck, b, s, bt, qt, rng.randint(1, 3), gen.float_tensor(ck.nprng, (1, 1, H, W)), '%s/%s' % (b, s))
    for (H, W, J) in [(2, 2, 3), (4, 4, 4), (3, 5, 4), (8, 8, 5), (6, 2, 3)]:      # deeper than the image is large
        b, s = rng.choice(pairs); bt, qt = OD.lib_tables(b, s)
        rt.guard(ck, oracle_fwd, ck, b, s, bt, qt, J, gen.float_tensor(ck.nprng, (1, 2, H, W)), '%s/%s' % (b, s))
    for it in range((30 if q else 300) * (3 if extended else 1)):
        bt = OD.int_biort(rng, gen); qt = OD.int_qshift(rng, gen)
        J = rng.randint(1, 3)
        x = gen.int_tensor(rng, (1, rng.randint(1, 2), rng.randint(2, 22), rng.randint(2, 22)), amp=3)
        rt.guard(ck, oracle_fwd, ck, bt, qt, bt, qt, J, x, 'integer filters')
    # sizes above every blocking / tiling threshold (gen.scale_shapes_2d): EVERY level-1 family (their low-pass and high-pass
    # lengths differ in both directions) with every q-shift family in turn
    for k, shp in enumerate(gen.scale_shapes_2d(ck.tier)):
        for i, b in enumerate(OD.BIORTS):
            if not q or (k + i) % 2 == 0 or shp[2] > 500 or shp[3] > 500:
                s = OD.QSHIFTS[(k + i) % len(OD.QSHIFTS)]; bt, qt = OD.lib_tables(b, s)
                rt.guard(ck, oracle_fwd, ck, b, s, bt, qt, 1 + (k + i) % 3, gen.float_tensor(ck.nprng, shp), '%s/%s' % (b, s))


def spec_check(ck):
    """Lean reference formulas (Spec/DtcwtRef.lean) <-> dtcwt.numpy.lowlevel, exact on integers"""
    import dtcwt.numpy.lowlevel as Rf
    rng = ck.rng
    lines, exp = [], []
    for it in range(80 if ck.tier == 'quick' else 800):
        if it % 2 == 0:
            L = rng.choice([1, 3, 5, 7, 9, 13, 19, 2, 4, 6]); r = rng.randint(1, 14)
            h = gen.int_filter(rng, L, zero_ends=0.0); x = gen.int_tensor(rng, (r,))
            lines.append(proto.to_line('Q', 'spec_colfilter', [], [h, x])); exp.append([Rf.colfilter(x.reshape(r, 1), h)[:, 0]])
        else:
            m = 2 * rng.randint(1, 9); r = 4 * rng.randint(1, 5); hp = rng.randint(0, 1)
            while True:
                ha = gen.int_filter(rng, m, zero_ends=0.0); hb = gen.int_filter(rng, m, zero_ends=0.0)
                sgn = np.sum(ha * hb)
                if (sgn > 0 and not hp) or (sgn < 0 and hp):      # the reference picks the tree order from this sign
                    break
            x = gen.int_tensor(rng, (r,))
            lines.append(proto.to_line('Q', 'spec_coldfilt', [hp], [ha, hb, x])); exp.append([Rf.coldfilt(x.reshape(r, 1), ha, hb)[:, 0]])
    # the whole reference pyramid Spec.refForward (what WV.C03P.dtcwt_forward_eq_ref refines to) <-> dtcwt.Transform2d.forward
    n1 = len(lines)
    for it in range(24 if ck.tier == 'quick' else 240):
        if it % 3 == 0:
            b = rng.choice(OD.BIORTS); s_ = rng.choice(OD.QSHIFTS)
            bt, qt = OD.lib_tables(b, s_); kind = 'F'
            x = gen.float_tensor(ck.nprng, (rng.randint(2, 26), rng.randint(2, 26)))
        else:
            bt = OD.int_biort(rng, gen); qt = OD.int_qshift(rng, gen); kind = 'Q'
            x = gen.int_tensor(rng, (rng.randint(2, 22), rng.randint(2, 22)), amp=3)
        J = rng.randint(1, 4)
        h0o, g0o, h1o, g1o = [np.ravel(v) for v in bt]
        h0a, h0b, g0a, g0b, h1a, h1b, g1a, g1b = [np.ravel(v) for v in qt]
        low, highs = OD.forward(x, bt, qt, J)
        lines.append(proto.to_line(kind, 'spec_forward', [J], [h0o, h1o, h0a, h0b, h1a, h1b, x]))
        exp.append([low] + [OD.to_canon(h) for h in highs])
    outs = proto.run_driver(lines)
    bad = []
    for ln, o, e in zip(lines, outs, exp):
        kind = ln[0]
        if o == 'raise' or len(o) != len(e) or not all(proto.equal_exact(kind, ee, oo)[0] for ee, oo in zip(e, o)):
            bad.append(ln[:200])
    ck.extra['spec_vs_reference'] = {'evaluations': len(lines), 'pyramids': len(lines) - n1, 'mismatches': len(bad)}
    if bad:
        raise RuntimeError('Lean reference formulas disagree with the numpy dtcwt package (machinery error, not a verdict): ' + bad[0])


def run(ck):
    std_run(ck, PROP, MODULE, THEOREMS, OPS, 320, 3000, oracle,
            rule='correspondence (exact over Q(sqrt2)): colfilter/rowfilter, coldfilt/rowdfilt (both highpass flags, row counts incl. non-multiples of 4 which must raise), q2c, fwd_j1, fwd_j2plus, '
                 'DTCWTForward (all layouts, masks, odd and non-multiple-of-4 sizes) with random asymmetric integer filters; oracle: real DTCWTForward vs dtcwt.Transform2d.forward for the 20 named '
                 'filter pairs and for integer filters obeying the reference tree-order sign rule; distinct by (op, params, shapes) / (J, shape, filters)')
    spec_check(ck)


def replay(ck, path):
    rt.setup_torch()
    d = load_replay(path)
    f = d.get('failure', {}).get('replay')
    if not f:
        print('replay file names no failing input: %s' % d.get('broken_obligations'))
        return 1
    if f.get('oracle') == 'fwd-converted':
        oracle_fwd_converted(ck, f['b'], f['s'], f['J'], arr_from(f['x']))
    elif f.get('oracle') == 'fwd-special':
        oracle_fwd_special(ck, f['b'], f['s'], f['J'], arr_from(f['x']), float(f['val']), tuple(f['pos']))
    else:
        bt = tuple(arr_from(a) for a in f['bt']); qt = tuple(arr_from(a) for a in f['qt'])
        oracle_fwd(ck, bt, qt, bt, qt, f['J'], arr_from(f['x']), f['named'])
    for fl in ck.failures:
        print('REPLAY-FAILS: ' + fl['desc'])
    if not ck.failures:
        print('REPLAY-PASSES')
    return 1 if ck.failures else 0
