"""C11 — DTCWT synthesis equals the reference inverse on arbitrary pyramids; absent == zeros."""
import numpy as np
import torch
from .. import rt, gen, proto
from .. import oracle_dtcwt as OD
from ..dtcwt_common import *
from ..impl_dtcwt import IMPL
from ..impl_dwt import T, N as NP

PROP = 'C11'
MODULE = 'WaveletsVerif.Properties.C11'
THEOREMS = ['WV.C11.interleave4_get', 'WV.C11.colifilt1_raises_iff', 'WV.C11.invJ2_absent_high', 'WV.C11.DTCWTInverse_all_absent', 'WV.C11.colifilt1_eq_ref', 'WV.C11.branch_get',
            'WV.C03T.reflect_eq_symIdx', 'WV.C03T.symm_pad_1d_eq', 'WV.C03T.symmPad_eq_gather',
            'WV.C11P.invJ1_eq_ref', 'WV.C11P.invJ2_eq_ref', 'WV.C11P.crop_rect', 'WV.C11P.go_eq_ref', 'WV.C11P.dtcwt_inverse_eq_ref',
            'WV.C11Z.invJ2_absent_high_eq_zeros', 'WV.C11Z.invJ2_absent_low_eq_zeros',
            'WV.C11Z.invJ1_absent_high_eq_zeros', 'WV.C11Z.invJ1_absent_low_eq_zeros', 'WV.C04Z.cropToHighs_gen', 'WV.C10Z.dtcwt_glue_gen', 'WV.C10Z.forward_keeps_no_state_gen']
OPS = ['colifilt', 'rowifilt', 'c2q', 'inv_j1', 'inv_j2plus', 'DTCWTInverse']
KF_MID = 'C11-absent-level-after-extension'


def run_inverse(g, low, highs, o=2, ri=-1):
    """call the real module with torch objects (None / empty tensors allowed)"""
    from pytorch_wavelets.dtcwt.transform2d import DTCWTInverse as M
    mod = M(biort=(g[0], g[1]), qshift=(g[2], g[3], g[4], g[5]), o_dim=o, ri_dim=ri)
    return mod((low, highs))


def oracle_inv(ck, b, s, bt, qt, low, highs, named):
    """full pyramid: real DTCWTInverse vs dtcwt inverse (per slice); highs canonical (N,C,6,h,w,2)"""
    h0o, g0o, h1o, g1o = [np.ravel(v) for v in bt]
    h0a, h0b, g0a, g0b, h1a, h1b, g1a, g1b = [np.ravel(v) for v in qt]
    g = [g0o, g1o, g0a, g0b, g1a, g1b]
    desc = 'DTCWTInverse J=%d low=%s filters=%s' % (len(highs), tuple(low.shape), named)
    replay = {'oracle': 'inv', 'low': arr_json(low), 'highs': [arr_json(h) for h in highs], 'named': named,
              'bt': [arr_json(np.ravel(v)) for v in bt], 'qt': [arr_json(np.ravel(v)) for v in qt]}
    from .. import impl_dtcwt
    with impl_dtcwt.named(b, s):
        got = rt.run_impl(rt.Case('Q', 'DTCWTInverse', [2, -1, 1, 0], g + [low] + list(highs)), IMPL)
    if isinstance(got, tuple):
        ck.fail(desc + ': raises %s: %s' % (got[1], got[2]), replay); return 'raise'
    for n in range(low.shape[0]):
        for c in range(low.shape[1]):
            ref = OD.inverse(low[n, c], [OD.from_canon(h[n, c]) for h in highs], b, s)
            ok, why = same([got[0][n, c]], [ref], 1e-9)
            if not ok:
                ck.fail(desc + ': slice (%d,%d) differs from the reference inverse: %s' % (n, c, why), replay); return 'diff'
    ck.oracle_ok((len(highs), tuple(low.shape), named if isinstance(named, str) else 'int'), group='inv',
                 sample={'oracle': 'dtcwt.Transform2d.inverse', 'J': len(highs), 'low_shape': list(low.shape), 'filters': named, 'out_shape': list(got[0].shape)})
    return None


def oracle_inv_special(ck, b, s, J, shape, val, where):
    """a pyramid with ONE non-finite band-pass coefficient (one orientation, real or imaginary part): wherever the reference inverse of
    that pyramid is finite, so is the library's, with the same value"""
    import torch
    from pytorch_wavelets import DTCWTForward, DTCWTInverse
    lev, o, ri = where
    fw = DTCWTForward(biort=b, qshift=s, J=J).double(); iv = DTCWTInverse(biort=b, qshift=s).double()
    x = gen.float_tensor(ck.nprng, (1, 1) + tuple(shape))
    with torch.no_grad():
        yl, yh = fw(torch.tensor(x, dtype=torch.float64))
        yh = [h.clone() for h in yh]
        p, q = yh[lev].shape[3] // 2, yh[lev].shape[4] // 2
        yh[lev][0, 0, o, p, q, ri] = val
        got = iv((yl, yh))[0, 0].numpy()
    desc = 'DTCWTInverse(%s/%s) of a %d-level pyramid of a %s image with %r in orientation %d (part %d) of level %d at (%d, %d)' % (b, s, J, tuple(shape), val, o, ri, lev + 1, p, q)
    replay = {'oracle': 'inv-special', 'b': b, 's': s, 'J': J, 'shape': list(shape), 'val': repr(val), 'where': list(where), 'note': 'pyramid drawn from the check PRNG'}
    with np.errstate(all='ignore'):
        ref = OD.inverse(yl[0, 0].numpy(), [OD.from_canon(h[0, 0].numpy()) for h in yh], b, s)
    if got.shape != ref.shape:
        ck.fail(desc + ': shape %s, reference %s' % (got.shape, ref.shape), replay); return 'shape'
    m = np.isfinite(ref)
    sc = max(1.0, float(np.max(np.abs(ref[m]))) if m.any() else 1.0)
    bad = m & ~(np.isfinite(got) & (np.abs(np.where(np.isfinite(got), got, 0.0) - np.where(m, ref, 0.0)) <= 1e-5 * sc))
    if bad.any():
        idx = tuple(int(v[0]) for v in np.nonzero(bad))
        ck.fail(desc + ': pixel %s is %r where the reference inverse of the same pyramid is finite (%r) [%d such pixels]' % (idx, float(got[idx]), float(ref[idx]), int(bad.sum())), replay)
        return 'leak'
    ck.oracle_ok(('special', b, s, J, repr(val), lev, o), group='inv-special', sample={'what': desc, 'non_finite_in_reference': int((~m).sum())})
    return None


def oracle_absent(ck, g, low, highs, absent, spelling, H, W):
    """absent inputs (None / torch.tensor([])) must equal zeros of the right shape"""
    J = len(highs)
    desc = 'DTCWTInverse with %s given as %s, J=%d image %dx%d' % (sorted(absent), spelling, J, H, W)
    replay = {'oracle': 'absent', 'g': [arr_json(v) for v in g], 'low': arr_json(low), 'highs': [arr_json(h) for h in highs], 'absent': sorted(absent), 'spelling': spelling, 'H': H, 'W': W}
    zl = T(np.zeros_like(low)) if 'low' in absent else T(low)
    zh = [T(np.zeros_like(h)) if ('h%d' % (j + 1)) in absent else T(h) for j, h in enumerate(highs)]
    with torch.no_grad():
        ref = run_inverse(g, zl, zh)
    mk = (lambda: None) if spelling == 'None' else (lambda: torch.tensor([]))
    al = mk() if 'low' in absent else T(low)
    ah = [mk() if ('h%d' % (j + 1)) in absent else T(h) for j, h in enumerate(highs)]
    # the one recorded defect: an absent level k < J whose band has an odd side (so level k+1 worked on
    # the multiple-of-4 extension of its low-pass) while something coarser is present: without the
    # level's band size the module cannot undo the extension
    kk = None
    (lh, lw), hsz = pyramid_shapes(H, W, J)
    for k in range(1, J):
        if ('h%d' % k) in absent and (hsz[k - 1][0] % 2 or hsz[k - 1][1] % 2):
            coarser = ('low' not in absent) or any(('h%d' % k2) not in absent for k2 in range(k + 1, J + 1))
            if coarser:
                sp = {'None': 0, 'torch.tensor([])': 1}[spelling]
                case = rt.Case('Q', 'DTCWTInverse', [2, -1, 1, sp], list(g) + [None if 'low' in absent else low] +
                               [None if ('h%d' % (j + 1)) in absent else h for j, h in enumerate(highs)])
                from ..dwt_common import model_agrees
                if model_agrees(case, IMPL):
                    kk = KF_MID
    try:
        with torch.no_grad():
            got = run_inverse(g, al, ah)
    except Exception as e:
        ck.fail(desc + ': raises %s: %s' % (type(e).__name__, str(e)[:100]), replay, known_key=kk); return 'raise'
    if tuple(got.shape) != tuple(ref.shape) or not np.allclose(NP(got), NP(ref), atol=1e-9 * max(1.0, float(ref.abs().max()))):
        ck.fail(desc + ': result differs from passing zeros (shape %s vs %s)' % (tuple(got.shape), tuple(ref.shape)), replay, known_key=kk); return 'diff'
    ck.oracle_ok(('absent', tuple(sorted(absent)), spelling, J, H, W), group='absent',
                 sample={'what': desc, 'out_shape': list(got.shape)})
    return None


def oracle(ck, extended):
    rng = ck.rng
    q = ck.tier == 'quick'
    pairs = [(b, s) for b in OD.BIORTS for s in OD.QSHIFTS]
    for (b, s) in (rng.sample(pairs, 6) if q else pairs * 2):
        bt, qt = OD.lib_tables(b, s)
        J = rng.randint(1, 3 if q else 5)
        H = rng.randint(2, 40); W = rng.randint(2, 40)
        (lh, lw), hsz = pyramid_shapes(H, W, J)
        nb, c = rng.randint(1, 2), rng.randint(1, 2)
        low = gen.float_tensor(ck.nprng, (nb, c, lh, lw)); highs = [gen.float_tensor(ck.nprng, (nb, c, 6, a, b_, 2)) for a, b_ in hsz]
        rt.guard(ck, oracle_inv, ck, b, s, bt, qt, low, highs, '%s/%s' % (b, s))
        # thresholded pyramids: some levels PRESENT but identically zero (not the same call as an absent level),
        # compared with the reference package, not with the library's own zeros path
        zs = [j for j in range(J) if rng.random() < 0.5] or [rng.randrange(J)]
        highs_z = [np.zeros_like(h) if j in zs else h for j, h in enumerate(highs)]
        rt.guard(ck, oracle_inv, ck, b, s, bt, qt, low if rng.random() < 0.8 else np.zeros_like(low), highs_z, '%s/%s zero levels %s' % (b, s, [j + 1 for j in zs]))
    # ONE non-finite coefficient in one orientation: the other sub-images of the quad must not see it
    for (b, s) in (rng.sample(pairs, 4) if q else pairs):
        for val in (float('nan'), float('inf')):
            J = rng.randint(1, 2)
            rt.guard(ck, oracle_inv_special, ck, b, s, J, (rng.randint(12, 20) * 2, rng.randint(12, 20) * 2), val, (rng.randrange(J), rng.randrange(6), rng.randrange(2)))
    for (H, W, J) in [(2, 2, 3), (4, 4, 4), (3, 5, 4), (8, 8, 5), (6, 2, 3)]:      # deeper than the image is large: several 1x1 levels
        b, s = rng.choice(pairs); bt, qt = OD.lib_tables(b, s)
        (lh, lw), hsz = pyramid_shapes(H, W, J)
        low = gen.float_tensor(ck.nprng, (1, 2, lh, lw)); highs = [gen.float_tensor(ck.nprng, (1, 2, 6, a, b_, 2)) for a, b_ in hsz]
        rt.guard(ck, oracle_inv, ck, b, s, bt, qt, low, highs, '%s/%s' % (b, s))
    # pyramids of images above every blocking / tiling threshold (gen.scale_shapes_2d) with EVERY level-1 family (the
    # synthesis low-pass is the longer filter for some families and the shorter one for others)
    for k, shp in enumerate(gen.scale_shapes_2d(ck.tier)):
        for i, b in enumerate(OD.BIORTS):
            if not q or (k + i) % 2 == 0 or shp[2] > 500 or shp[3] > 500:
                s = OD.QSHIFTS[(k + i) % len(OD.QSHIFTS)]; bt, qt = OD.lib_tables(b, s)
                (lh, lw), hsz = pyramid_shapes(shp[2], shp[3], 1 + (k + i) % 3)
                low = gen.float_tensor(ck.nprng, (shp[0], shp[1], lh, lw)); highs = [gen.float_tensor(ck.nprng, (shp[0], shp[1], 6, a, b_, 2)) for a, b_ in hsz]
                rt.guard(ck, oracle_inv, ck, b, s, bt, qt, low, highs, '%s/%s' % (b, s))
    # basis pyramids: one unit sample (first row, first column and interior; lowpass and each level).  The first-row
    # impulses are the inputs on which the reference's zero shortcut misfires (oracle_dtcwt._linear_colifilt)
    for (H, W, J) in [(8, 8, 2), (16, 12, 3), (5, 7, 2)]:
        b, s = rng.choice(pairs); bt, qt = OD.lib_tables(b, s)
        (lh, lw), hsz = pyramid_shapes(H, W, J)
        for where in ['low'] + list(range(J)):
            for (i, j) in [(0, 0), (0, lw - 1), (lh - 1, 0)] if where == 'low' else [(0, 0), (hsz[where][0] - 1, hsz[where][1] - 1)]:
                low = np.zeros((1, 1, lh, lw)); highs = [np.zeros((1, 1, 6, a, b_, 2)) for a, b_ in hsz]
                if where == 'low':
                    low[0, 0, i, j] = 1.0
                else:
                    highs[where][0, 0, rng.randrange(6), i, j, rng.randrange(2)] = 1.0
                rt.guard(ck, oracle_inv, ck, b, s, bt, qt, low, highs, '%s/%s basis %s (%d,%d)' % (b, s, where, i, j))
    for it in range((20 if q else 200) * (3 if extended else 1)):
        bt = OD.int_biort(rng, gen); qt = OD.int_qshift(rng, gen)
        J = rng.randint(1, 3)
        (lh, lw), hsz = pyramid_shapes(rng.randint(2, 22), rng.randint(2, 22), J)
        low = gen.int_tensor(rng, (1, 1, lh, lw), 3); highs = [gen.int_tensor(rng, (1, 1, 6, a, b_, 2), 3) for a, b_ in hsz]
        if it % 3 == 2:
            k = rng.randrange(J); highs[k] = np.zeros_like(highs[k])
        rt.guard(ck, oracle_inv, ck, bt, qt, bt, qt, low, highs, 'integer filters')
    # deterministic witness of the recorded finding (12x20 image, J=3, level 2 absent)
    g_w = dt_filters(rng); (lh_w, lw_w), hsz_w = pyramid_shapes(12, 20, 3)
    rt.guard(ck, oracle_absent, ck, g_w, gen.int_tensor(rng, (1, 1, lh_w, lw_w), 3), [gen.int_tensor(rng, (1, 1, 6, a, b_, 2), 3) for a, b_ in hsz_w], {'h2'}, 'None', 12, 20)
    # absent inputs: every non-empty proper subset for J <= 3 on a few sizes, both spellings
    sizes = [(16, 16), (12, 20), (10, 14), (9, 7)] if q else [(16, 16), (12, 20), (10, 14), (9, 7), (32, 24), (6, 6), (22, 18), (5, 12)]
    for (H, W) in sizes:
        for J in (1, 2, 3):
            g = dt_filters(rng)
            (lh, lw), hsz = pyramid_shapes(H, W, J)
            low = gen.int_tensor(rng, (1, 1, lh, lw), 3); highs = [gen.int_tensor(rng, (1, 1, 6, a, b_, 2), 3) for a, b_ in hsz]
            names = ['low'] + ['h%d' % (j + 1) for j in range(J)]
            subsets = [set(n for k, n in enumerate(names) if (mask >> k) & 1) for mask in range(1, 2 ** len(names) - 1)]
            for ab in (subsets if not q else rng.sample(subsets, min(len(subsets), 5))):
                for sp in ('None', 'torch.tensor([])'):
                    rt.guard(ck, oracle_absent, ck, g, low, highs, ab, sp, H, W)


def spec_check(ck):
    """Lean reference formula of colifilt (Spec/DtcwtRef.lean) <-> dtcwt.numpy.lowlevel.colifilt, exact on integers"""
    import dtcwt.numpy.lowlevel as Rf
    rng = ck.rng
    lines, exp = [], []
    for it in range(60 if ck.tier == 'quick' else 600):
        m = 2 * rng.randint(1, 9); r = 2 * rng.randint(1, 8); hp = rng.randint(0, 1)
        while True:
            ha = gen.int_filter(rng, m, zero_ends=0.0); hb = gen.int_filter(rng, m, zero_ends=0.0)
            sg = np.sum(ha * hb)
            if (sg > 0 and not hp) or (sg < 0 and hp):          # the reference picks the tree order from this sign
                break
        x = gen.int_tensor(rng, (r,))
        lines.append(proto.to_line('Q', 'spec_colifilt', [hp], [ha, hb, x]))
        exp.append(Rf.colifilt(np.stack([x, x[::-1]], axis=1), ha, hb)[:, 0])      # two columns: the reference mishandles (r,1) inputs
    # the whole reference inverse Spec.refInverse <-> dtcwt.Transform2d.inverse on arbitrary forward-compatible pyramids
    n1 = len(lines)
    for it in range(24 if ck.tier == 'quick' else 240):
        if it % 3 == 0:
            b = rng.choice(OD.BIORTS); s_ = rng.choice(OD.QSHIFTS)
            bt, qt = OD.lib_tables(b, s_); kind = 'F'
        else:
            bt = OD.int_biort(rng, gen); qt = OD.int_qshift(rng, gen); kind = 'Q'
        J = rng.randint(1, 4)
        (lh_, lw_), hsz = pyramid_shapes(rng.randint(2, 26), rng.randint(2, 26), J)
        if kind == 'F':
            low = gen.float_tensor(ck.nprng, (lh_, lw_)); highs = [gen.float_tensor(ck.nprng, (6, a, b_, 2)) for a, b_ in hsz]
        else:
            low = gen.int_tensor(rng, (lh_, lw_), 3); highs = [gen.int_tensor(rng, (6, a, b_, 2), 3) for a, b_ in hsz]
        h0o, g0o, h1o, g1o = [np.ravel(v) for v in bt]
        h0a, h0b, g0a, g0b, h1a, h1b, g1a, g1b = [np.ravel(v) for v in qt]
        ref = OD.inverse(low, [OD.from_canon(h) for h in highs], bt, qt)
        lines.append(proto.to_line(kind, 'spec_inverse', [], [g0o, g1o, g0a, g0b, g1a, g1b, low] + highs))
        exp.append(ref)
    outs = proto.run_driver(lines)
    bad = [ln[:200] for ln, o, e in zip(lines, outs, exp) if o == 'raise' or not proto.equal_exact(ln[0], e, o[0])[0]]
    ck.extra['spec_vs_reference'] = {'evaluations': len(lines), 'pyramids': len(lines) - n1, 'mismatches': len(bad)}
    if bad:
        raise RuntimeError('Lean reference formula of colifilt disagrees with the numpy dtcwt package (machinery error, not a verdict): ' + bad[0])


def run(ck):
    std_run(ck, PROP, MODULE, THEOREMS, OPS, 320, 3000, oracle,
            rule='correspondence (exact over Q(sqrt2)): colifilt/rowifilt (both parities of m/2, both flags, odd sizes must raise), c2q, inv_j1, inv_j2plus with absent low/high inputs, '
                 'DTCWTInverse in all layouts with absent levels; oracle: real DTCWTInverse vs dtcwt inverse on arbitrary pyramids of forward-compatible shape (20 named pairs, integer filters), '
                 'and absent inputs (None and torch.tensor([])) vs explicit zeros for subsets of {low, level 1..J}; distinct by (J, shapes, filters) / (absent set, spelling, J, size)')
    spec_check(ck)


def replay(ck, path):
    rt.setup_torch()
    d = load_replay(path)
    f = d.get('failure', {}).get('replay')
    if not f:
        print('replay file names no failing input: %s' % d.get('broken_obligations'))
        return 1
    if f['oracle'] == 'inv-special':
        oracle_inv_special(ck, f['b'], f['s'], f['J'], tuple(f['shape']), float(f['val']), tuple(f['where']))
    elif f['oracle'] == 'inv':
        bt = tuple(arr_from(a) for a in f['bt']); qt = tuple(arr_from(a) for a in f['qt'])
        oracle_inv(ck, bt, qt, bt, qt, arr_from(f['low']), [arr_from(h) for h in f['highs']], f['named'])
    else:
        oracle_absent(ck, [arr_from(v) for v in f['g']], arr_from(f['low']), [arr_from(h) for h in f['highs']], set(f['absent']), f['spelling'], f['H'], f['W'])
    for fl in ck.failures:
        print('REPLAY-FAILS: ' + fl['desc'])
    for k, (t, n) in ck.known_hits.items():
        print('REPLAY-KNOWN-FINDING: ' + t)
    if not ck.failures and not ck.known_hits:
        print('REPLAY-PASSES')
    return 1 if ck.failures else 0
