"""./check <Cnn> [--tier quick|thorough] [--replay file]"""
import sys, os, argparse, importlib, traceback, signal


def main():
    ap = argparse.ArgumentParser()
    ap.add_argument('prop')
    ap.add_argument('--tier', default=os.environ.get('VERIF_TIER', 'quick'), choices=['quick', 'thorough'])
    ap.add_argument('--replay', default=None)
    ap.add_argument('--no-lean', action='store_true', help='skip the Lean build (debugging only)')
    a = ap.parse_args()
    os.environ['VERIF_TIER_ACTIVE'] = a.tier
    budget = int(os.environ.get('VERIF_TIMEOUT', '900' if a.tier == 'quick' else '3000'))

    def on_alarm(signum, frame):
        print('TIMEOUT property=%s after %ds (no verdict)' % (a.prop, budget))
        os._exit(2)
    signal.signal(signal.SIGALRM, on_alarm)
    signal.alarm(budget)
    try:
        mod = importlib.import_module('harness.props.' + a.prop.lower())
    except ModuleNotFoundError:
        print('unknown property ' + a.prop)
        return 2
    try:
        from . import rt
        ck = rt.Check(a.prop.upper(), a.tier)
        ck.no_lean = a.no_lean
        if a.replay:
            import json
            try:
                fr = json.load(open(a.replay)).get('failure', {}).get('replay', {})
            except Exception:
                fr = {}
            if isinstance(fr, dict) and fr.get('oracle') == 'process-state':
                # generic history replay: the constructor / refused-call fuzz runs again (rt.setup_torch -> history.prehistory)
                from . import history
                rt.setup_torch()
                hits = history.STATE.get('process_state_changed', [])
                for h in hits[:5]:
                    print('REPLAY-FAILS: process-wide setting changed by %s: %s' % (h['by'], h['changed']))
                if not hits:
                    print('REPLAY-PASSES')
                return 1 if hits else 0
            if isinstance(fr, dict) and fr.get('oracle') == 'contention':
                # concurrent callers (harness.contention): the group runs again, several times over (schedules are sampled)
                from . import contention
                rt.setup_torch()
                for _ in range(5):
                    contention.run_for(ck, a.prop, only=fr.get('group'))
                    if ck.failures:
                        break
                for f in ck.failures[:3]:
                    print('REPLAY-FAILS: ' + f['desc'])
                if not ck.failures:
                    print('REPLAY-PASSES')
                return 1 if ck.failures else 0
            if isinstance(fr, dict) and fr.get('oracle') == 'locality':
                from . import locality
                rt.setup_torch()
                locality.run_for(ck, a.prop, only=fr.get('group'))
                for f in ck.failures[:3]:
                    print('REPLAY-FAILS: ' + f['desc'])
                if not ck.failures:
                    print('REPLAY-PASSES')
                return 1 if ck.failures else 0
            return mod.replay(ck, a.replay)
        mod.run(ck)
        if not os.environ.get('VERIF_NO_CONTENTION'):          # debugging switch only; the registered commands never set it
            from . import contention
            contention.run_for(ck, a.prop)
        if not os.environ.get('VERIF_NO_LOCALITY'):            # debugging switch only
            from . import locality
            locality.run_for(ck, a.prop)
        return ck.finish()
    except Exception:
        traceback.print_exc()
        print('ERROR property=%s: the check itself failed (no verdict)' % a.prop)
        return 2


if __name__ == '__main__':
    sys.exit(main())
