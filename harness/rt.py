"""Runtime shared by all property checks: seeding, Lean build + axiom audit,
correspondence runs, oracle runs, known findings, violation reports, evidence."""
import os, sys, json, time, random, hashlib, subprocess, re, fcntl, traceback, warnings, logging
import numpy as np

ROOT = os.path.dirname(os.path.dirname(os.path.abspath(__file__)))
LEAN = os.path.join(ROOT, 'lean')
REPO = os.environ.get('VERIF_REPO', '/repo')
GUARD = 'PYTORCH_WAVELETS_VERIF'

warnings.filterwarnings('ignore')
logging.disable(logging.WARNING)

ALLOWED_AXIOMS = {'propext', 'Classical.choice', 'Quot.sound'}
FORBIDDEN = re.compile(r'\b(sorry|admit|native_decide|bv_decide|implemented_by)\b|^\s*axiom\s|unsafe\s|maxHeartbeats\s+0')


class HarnessSkip(Exception):
    """the harness cannot set this case up on the real code (not a verdict)"""


def seed():
    try:
        return int(os.environ.get('VERIF_SEED', '0'))
    except ValueError:
        return 0


def setup_torch():
    os.environ[GUARD] = '1'
    os.environ.setdefault('OMP_NUM_THREADS', '4')
    sys.path.insert(0, REPO)
    import torch
    torch.set_num_threads(int(os.environ.get('OMP_NUM_THREADS', '4')))
    import pytorch_wavelets
    got = os.path.realpath(os.path.dirname(pytorch_wavelets.__file__))
    want = os.path.realpath(os.path.join(REPO, 'pytorch_wavelets'))
    if got != want:
        raise RuntimeError('pytorch_wavelets imported from %s, expected %s' % (got, want))
    from . import history
    if not history.STATE.get('installed'):
        history.STATE['installed'] = True
        if os.environ.get('VERIF_NO_HISTORY') != '1':
            # the package is imported, and modules are built and called, under the stock float32 default first
            history.prehistory(torch)
            history.install(seed())
    torch.set_default_dtype(torch.float64)
    return torch


# ----------------------------------------------------------------------------
# Lean side
# ----------------------------------------------------------------------------

class LeanResult:
    def __init__(self):
        self.ok = True
        self.failed = []          # [(what, message)]
        self.axioms = {}          # theorem -> [axioms]
        self.obligations = []
        self.discharged = []
        self.log = ''
        self.wall = 0.0
        self.leanchecker = None   # thorough tier: {'modules': [...], 'exit': rc} of the independent re-check


def _lake(args, timeout=1500):
    lock = open(os.path.join(LEAN, '.lake.lock'), 'w')
    fcntl.flock(lock, fcntl.LOCK_EX)
    try:
        p = subprocess.run(['lake'] + args, cwd=LEAN, stdout=subprocess.PIPE, stderr=subprocess.STDOUT, timeout=timeout)
        return p.returncode, p.stdout.decode(errors='replace')
    finally:
        fcntl.flock(lock, fcntl.LOCK_UN)
        lock.close()


def grep_forbidden():
    hits = []
    for dp, dn, fn in os.walk(os.path.join(LEAN, 'WaveletsVerif')):
        for f in fn:
            if not f.endswith('.lean'):
                continue
            path = os.path.join(dp, f)
            in_block = 0
            for i, line in enumerate(open(path, encoding='utf-8'), 1):
                code = line
                # strip block comments (non-nested approximation) and line comments
                out = ''
                j = 0
                while j < len(code):
                    if code.startswith('/-', j):
                        in_block += 1; j += 2; continue
                    if code.startswith('-/', j) and in_block:
                        in_block -= 1; j += 2; continue
                    if in_block:
                        j += 1; continue
                    if code.startswith('--', j):
                        break
                    out += code[j]; j += 1
                if FORBIDDEN.search(out):
                    hits.append('%s:%d: %s' % (os.path.relpath(path, ROOT), i, line.strip()))
    return hits


def lean_check(prop_id, module, theorems, regen=None, clean=False):
    """Build the driver + the property module, audit axioms of `theorems`.

    Returns LeanResult; never raises for a failed proof (that is a verdict input)."""
    r = LeanResult()
    t0 = time.time()
    r.obligations = list(theorems)
    if regen is not None:
        try:
            regen(prop_id)
        except Exception as e:  # translator cannot follow the source
            r.ok = False
            r.failed.append(('translator', '%s: %s' % (type(e).__name__, e)))
    if clean:
        pass
    rc, out = _lake(['build', 'driver'])
    r.log += out
    if rc != 0:
        r.ok = False
        r.failed.append(('lake build driver', _first_error(out)))
    mods = [module]
    for th in theorems:
        mm = re.match(r'WV\.(C\d+[A-Za-z]?)\.', th)
        if mm and ('WaveletsVerif.Properties.' + mm.group(1)) not in mods:
            mods.append('WaveletsVerif.Properties.' + mm.group(1))
    rc, out = _lake(['build'] + mods)
    r.log += out
    if rc != 0:
        r.ok = False
        r.failed.append(('lake build ' + ' '.join(mods), _first_error(out)))
        # find which theorems still check: try the audit anyway only if olean exists
    hits = grep_forbidden()
    if hits:
        r.ok = False
        r.failed.append(('forbidden construct', '; '.join(hits[:5])))
    if rc == 0 and theorems:
        audit = os.path.join(LEAN, '.lake', 'audit_%s.lean' % prop_id)
        os.makedirs(os.path.dirname(audit), exist_ok=True)
        with open(audit, 'w') as f:
            for mname in mods:
                f.write('import %s\n' % mname)
            for th in theorems:
                f.write('#print axioms %s\n' % th)
        rc2, out2 = _lake(['env', 'lean', audit])
        r.log += out2
        cur = None
        text = out2.replace('\n  ', ' ')
        for m in re.finditer(r"'([^']+)' depends on axioms: \[([^\]]*)\]", text):
            r.axioms[m.group(1)] = [a.strip() for a in m.group(2).split(',') if a.strip()]
        for m in re.finditer(r"'([^']+)' does not depend on any axioms", text):
            r.axioms[m.group(1)] = []
        for th in theorems:
            if th in r.axioms:
                bad = [a for a in r.axioms[th] if a not in ALLOWED_AXIOMS]
                if bad:
                    r.ok = False
                    r.failed.append(('axioms of ' + th, ', '.join(bad)))
                else:
                    r.discharged.append(th)
            else:
                r.ok = False
                r.failed.append(('theorem ' + th, 'not found / not checked: ' + _first_error(out2)))
    if rc == 0 and os.environ.get('VERIF_TIER_ACTIVE') == 'thorough':
        # thorough tier: the toolchain's independent re-checker replays the compiled declarations of the property modules
        # (and of everything they import inside this library) through the kernel once more
        rc3, out3 = _lake(['env', 'leanchecker'] + mods)
        r.log += out3
        r.leanchecker = {'modules': mods, 'exit': rc3}
        if rc3 != 0:
            r.ok = False
            r.failed.append(('leanchecker ' + ' '.join(mods), (out3.strip().split('\n') or [''])[-1][:300]))
    r.wall = time.time() - t0
    return r


def _first_error(out):
    lines = out.split('\n')
    for i, l in enumerate(lines):
        if 'error' in l:
            return ' '.join(x.strip() for x in lines[i:i + 4])[:600]
    return out[-400:]


# ----------------------------------------------------------------------------
# Cases, correspondence
# ----------------------------------------------------------------------------

class Case:
    __slots__ = ('kind', 'op', 'params', 'tensors', 'tag', 'impl')

    def __init__(self, kind, op, params, tensors, tag=None, impl=None):
        self.kind = kind
        self.op = op
        self.params = [int(p) for p in params]
        self.tensors = tensors
        self.tag = tag or {}
        self.impl = impl      # optional override: callable(params, tensors)

    def key(self):
        shapes = tuple(None if t is None else tuple(np.shape(t)) for t in self.tensors)
        return (self.op, tuple(self.params), shapes)

    def to_json(self):
        return {'kind': self.kind, 'op': self.op, 'params': self.params,
                'tensors': [None if t is None else {'shape': list(np.shape(t)), 'data': np.asarray(t, dtype=np.float64).ravel().tolist()} for t in self.tensors],
                'tag': self.tag}

    @staticmethod
    def from_json(d):
        ts = [None if t is None else np.array(t['data'], dtype=np.float64).reshape(t['shape']) for t in d['tensors']]
        return Case(d['kind'], d['op'], d['params'], ts, d.get('tag'))


def run_impl(case, table):
    fn = case.impl or table[case.op]
    try:
        return fn(case.params, case.tensors)
    except HarnessSkip:
        return 'skip'
    except Exception as e:
        return ('raise', type(e).__name__, str(e)[:200])


def nontrivial(outs):
    if not isinstance(outs, list):
        return False
    for o in outs:
        if o is None:
            continue
        a = np.asarray(o)
        if a.size and (a != a.ravel()[0]).any():
            return True
    return False


class CorrStats:
    def __init__(self, name):
        self.name = name
        self.evaluations = 0
        self.classes = set()
        self.raises = 0
        self.skipped = 0
        self.by_op = {}
        self.mismatches = []     # (case, detail)
        self.samples = []

    def summary(self):
        return {'name': self.name, 'evaluations': self.evaluations, 'distinct_nontrivial': len(self.classes),
                'both_raise': self.raises, 'skipped': self.skipped, 'by_op': self.by_op,
                'mismatches': len(self.mismatches)}


def correspond(name, cases, table, stats=None):
    """Run every case on the real code (table[op]) and on the Lean driver; compare exactly."""
    from . import proto
    st = stats or CorrStats(name)
    cases = list(cases)
    impl_outs = [run_impl(c, table) for c in cases]
    keep = [(c, o) for c, o in zip(cases, impl_outs) if o != 'skip']
    st.skipped += len(cases) - len(keep)
    lines = [proto.to_line(c.kind, c.op, c.params, c.tensors) for c, _ in keep]
    model_outs = proto.run_driver(lines)
    for (c, io), mo in zip(keep, model_outs):
        st.evaluations += 1
        st.by_op[c.op] = st.by_op.get(c.op, 0) + 1
        iraise = isinstance(io, tuple) and io[0] == 'raise'
        mraise = (mo == 'raise')
        if iraise or mraise:
            if iraise and mraise:
                st.raises += 1
            else:
                st.mismatches.append((c, 'impl %s, model %s' % ('raises %s: %s' % (io[1], io[2]) if iraise else 'returns', 'raises' if mraise else 'returns')))
            continue
        if len(io) != len(mo):
            st.mismatches.append((c, 'impl returns %d tensors, model %d' % (len(io), len(mo))))
            continue
        bad = None
        for k, (a, b) in enumerate(zip(io, mo)):
            ok, detail = proto.equal_exact(c.kind, a, b)
            if not ok:
                bad = 'output %d: %s' % (k, detail)
                break
        if bad:
            st.mismatches.append((c, bad))
        else:
            if nontrivial(io):
                st.classes.add(c.key())
            if len(st.samples) < 3 and nontrivial(io):
                st.samples.append({'op': c.op, 'params': c.params, 'tag': c.tag,
                                   'input_shapes': [None if t is None else list(np.shape(t)) for t in c.tensors],
                                   'output_shapes': [None if o is None else list(np.shape(o)) for o in io],
                                   'first_output_head': [float(v) for v in np.asarray(next(o for o in io if o is not None)).ravel()[:6]]})
    return st


def guard(ck, fn, *a, **k):
    """run one oracle case; an exception that escapes from inside the library (on an input the oracle
    considers covered by the property) is a failing input, not a crash of the check"""
    try:
        return fn(*a, **k)
    except HarnessSkip:
        return None
    except Exception as e:
        tb = traceback.extract_tb(e.__traceback__)
        if not any(os.path.realpath(REPO) in os.path.realpath(fr.filename) for fr in tb):
            # the oracle's own arithmetic on the library's outputs failed because two outputs that the property says have
            # equal shapes do not: that is a failing input too, not a crash of the check
            if isinstance(e, (RuntimeError, ValueError)) and ('must match the size of tensor' in str(e) or 'could not be broadcast' in str(e) or 'shapes' in str(e) and 'not aligned' in str(e)):
                where = tb[-1]
                ck.fail('%s: outputs of the library have inconsistent shapes (%s: %s, at %s:%d) on an input the property covers' % (
                    fn.__name__, type(e).__name__, str(e)[:120], os.path.basename(where.filename), where.lineno),
                    {'oracle': fn.__name__, 'note': 'shape mismatch between library outputs inside the oracle; re-run the check with the same VERIF_SEED and tier'})
                return 'shape'
            raise
        where = [fr for fr in tb if os.path.realpath(REPO) in os.path.realpath(fr.filename)][-1]
        ck.fail('%s: the library raised %s: %s (%s:%d) on an input the property covers' % (
            fn.__name__, type(e).__name__, str(e)[:120], os.path.basename(where.filename), where.lineno),
            {'oracle': fn.__name__, 'note': 'exception escaped the oracle; re-run the check with the same VERIF_SEED and tier'})
        return 'raise'


def iso_run(jobs, timeout=900):
    """run each job {module, func, args} in a fresh interpreter of its own (harness.iso_worker), up to 16 at a
    time; returns the list of results, ('error', text) where a worker failed"""
    import subprocess, pickle
    from concurrent.futures import ThreadPoolExecutor

    def one(job):
        env = dict(os.environ, OMP_NUM_THREADS=os.environ.get('OMP_NUM_THREADS', '4'), PYTHONWARNINGS='ignore')
        try:
            p = subprocess.run([sys.executable, '-m', 'harness.iso_worker'], input=json.dumps(job).encode(),
                               capture_output=True, cwd=ROOT, env=env, timeout=timeout)
        except subprocess.TimeoutExpired:
            return ('error', 'timeout')
        if p.returncode != 0:
            return ('error', p.stderr.decode()[-400:])
        return pickle.loads(p.stdout)
    with ThreadPoolExecutor(max_workers=min(16, os.cpu_count() or 4)) as ex:
        return list(ex.map(one, jobs))


# ----------------------------------------------------------------------------
# Known findings
# ----------------------------------------------------------------------------

def load_known():
    p = os.path.join(ROOT, 'KNOWN_FINDINGS.json')
    if not os.path.exists(p):
        return []
    return json.load(open(p))['findings']


# ----------------------------------------------------------------------------
# The check object
# ----------------------------------------------------------------------------

class Check:
    def __init__(self, prop_id, tier):
        self.id = prop_id
        self.tier = tier
        self.seed = seed()
        self.t0 = time.time()
        self.rng = random.Random(self.seed * 1000003 + int(hashlib.sha1(prop_id.encode()).hexdigest()[:6], 16))
        self.nprng = np.random.default_rng(self.rng.getrandbits(63))
        self.lean = None
        self.corr = []            # CorrStats
        self.oracle = {'evaluations': 0, 'classes': set(), 'samples': [], 'by': {}}
        self.failures = []        # property failures on the real code: dict(desc, replay)
        self.known_hits = {}      # key -> (text, count)
        self.notes = []
        self.assumptions = []
        self.trusted = []
        self.extra = {}
        self.known = [k for k in load_known() if k['property'] == prop_id]

    # -- oracle bookkeeping ----------------------------------------------
    def oracle_ok(self, cls, sample=None, nontriv=True, group='oracle'):
        self.oracle['evaluations'] += 1
        self.oracle['by'][group] = self.oracle['by'].get(group, 0) + 1
        if nontriv:
            self.oracle['classes'].add(cls)
        if sample is not None and len(self.oracle['samples']) < 4:
            self.oracle['samples'].append(sample)

    def fail(self, desc, replay, known_key=None):
        """a concrete input on which the property fails on the real code"""
        self.oracle['evaluations'] += 1
        if known_key is not None:
            for k in self.known:
                if k['key'] == known_key and k.get('status', 'known') == 'known':
                    t, n = self.known_hits.get(known_key, (k['text'], 0))
                    self.known_hits[known_key] = (t, n + 1)
                    return
        self.failures.append({'desc': desc, 'replay': replay})

    # -- finish --------------------------------------------------------------
    def finish(self):
        from . import history as _h
        for ch in _h.STATE.get('process_state_changed', [])[:3]:
            # every property quantifies over call histories: a library call (failed or not) that changes a process-wide setting
            # changes what every later call in the process computes
            self.fail('process-wide setting changed by %s: %s' % (ch['by'], ch['changed']), {'oracle': 'process-state', 'by': ch['by'], 'changed': ch['changed']})
        wall = time.time() - self.t0
        lean = self.lean
        broken = []
        if lean is not None and not lean.ok:
            broken += ['%s: %s' % f for f in lean.failed]
        for st in self.corr:
            for c, d in st.mismatches[:3]:
                broken.append('correspondence %s op %s params %s: %s' % (st.name, c.op, c.params, d))
        violation = bool(self.failures) or bool(broken)
        replay_path = None
        tail = ''
        if violation:
            os.makedirs(os.path.join(ROOT, 'replays'), exist_ok=True)
            body = {'property': self.id, 'seed': self.seed, 'tier': self.tier}
            if self.failures:
                body['kind'] = 'failing-input'
                body['failure'] = self.failures[0]
                body['more_failures'] = [f['desc'] for f in self.failures[1:10]]
                body['rerun'] = './check %s --replay <this file>' % self.id
            else:
                body['kind'] = 'no-failing-input-found'
                tail = ' no-failing-input-found'
            body['broken_obligations'] = broken
            mm = []
            for st in self.corr:
                for c, d in st.mismatches[:3]:
                    mm.append({'corr': st.name, 'detail': d, 'case': c.to_json()})
            body['correspondence_mismatches'] = mm
            h = hashlib.sha1(json.dumps(body, sort_keys=True, default=str).encode()).hexdigest()[:10]
            replay_path = os.path.join('replays', '%s-%s.json' % (self.id, h))
            with open(os.path.join(ROOT, replay_path), 'w') as f:
                json.dump(body, f, indent=1, default=str)
        ev_eval = self.oracle['evaluations'] + sum(s.evaluations for s in self.corr)
        classes = set(self.oracle['classes'])
        for s in self.corr:
            classes |= {('corr', s.name) + k for k in s.classes}
        samples = list(self.oracle['samples'])
        for s in self.corr:
            samples += s.samples[:2]
        if lean is not None:
            samples += [{'obligation': th, 'axioms': lean.axioms.get(th)} for th in lean.discharged[:4]]
        cov = {
            'obligations': len(lean.obligations) if lean else 0,
            'discharged': len(lean.discharged) if lean else 0,
            'checker_cmd': 'cd lean && lake build %s && lake env lean .lake/audit_%s.lean  (#print axioms per theorem)' % (self.extra.get('module', ''), self.id),
            'trusted_base': self.trusted,
            'theorems': {th: lean.axioms.get(th) for th in (lean.discharged if lean else [])},
            'leanchecker': (lean.leanchecker if lean else None),
            'evaluations': ev_eval,
            'distinct_nontrivial': len(classes),
            'rule': self.extra.get('rule', ''),
            'samples': samples[:10] or [{'note': 'no sample recorded'}],
            'correspondence': [s.summary() for s in self.corr],
            'oracle': {'evaluations': self.oracle['evaluations'], 'by': self.oracle['by'],
                       'distinct_nontrivial': len(self.oracle['classes'])},
            'known_findings_hit': {k: {'text': t, 'cases': n} for k, (t, n) in self.known_hits.items()},
            'lean_wall_s': round(lean.wall, 2) if lean else None,
            'notes': self.notes,
        }
        for k, v in self.extra.items():
            if k not in ('module', 'rule'):
                cov[k] = v
        from . import history
        cov['histories'] = dict(history.STATS)
        odm = sys.modules.get('harness.oracle_dtcwt')
        if odm is not None:
            cov['reference_zero_shortcut_misfires_linearised'] = odm.SHORTCUT['misfired']
        ev = {'property_id': self.id, 'tier': self.tier, 'seed': self.seed, 'level': 'proof',
              'coverage': cov, 'assumptions': self.assumptions, 'wall_s': round(wall, 2),
              'violations': (len(self.failures) if self.failures else (1 if broken else 0))}
        # a debugging run without the Lean build is not a record of the check: it never replaces the evidence file
        evdir = os.path.join(ROOT, 'replays', 'debug-evidence') if getattr(self, 'no_lean', False) else os.environ.get('VERIF_EVIDENCE_DIR') or os.path.join(ROOT, 'evidence')
        os.makedirs(evdir, exist_ok=True)
        tmp = os.path.join(evdir, '%s.json.tmp' % self.id)
        with open(tmp, 'w') as f:
            json.dump(ev, f, indent=1, default=str)
        os.replace(tmp, os.path.join(evdir, '%s.json' % self.id))
        for k, (t, n) in sorted(self.known_hits.items()):
            print('KNOWN-FINDING: property=%s %s [%s; %d case(s) this run]' % (self.id, t, k, n))
        if violation:
            for b in broken[:5]:
                print('BROKEN: ' + b)
            for f in self.failures[:5]:
                print('FAILING-INPUT: ' + f['desc'])
            print('VIOLATION property=%s replay=%s%s' % (self.id, replay_path, tail))
            return 1
        print('OK property=%s tier=%s seed=%d theorems=%d/%d corr=%d oracle=%d wall=%.1fs' % (
            self.id, self.tier, self.seed, cov['discharged'], cov['obligations'],
            sum(s.evaluations for s in self.corr), self.oracle['evaluations'], wall))
        return 0
