"""Adapters: run the real pytorch_wavelets DWT code for a protocol case.

Every adapter takes (params, tensors) with numpy float64 tensors (or None) and
returns a list of numpy arrays / None; exceptions propagate (the caller maps
them to 'raise').
"""
import os
import numpy as np
import torch
from . import rt

INT_MODE = {0: 'zero', 1: 'symmetric', 2: 'periodization', 3: 'constant', 4: 'reflect', 5: 'replicate', 6: 'periodic'}
MODE_INT = {v: k for k, v in INT_MODE.items()}


def LM(m, ps, ts):
    """mode spelling handed to the library for this case (see gen.lib_mode)"""
    from . import gen
    return gen.lib_mode(m, tuple(ps), tuple(None if t is None else tuple(np.shape(t)) for t in ts))


import hashlib as _hashlib


def _u(a, salt=''):
    """a number in [0,1) that is a function of VERIF_SEED and of the array's content only, so that replaying a
    case reproduces the memory layout / history it was given"""
    h = _hashlib.sha1(('%d|%s|%s|' % (rt.seed(), salt, np.shape(a))).encode() + np.ascontiguousarray(a).tobytes()[:4096]).digest()
    return int.from_bytes(h[:6], 'big') / float(1 << 48)


def T(a):
    """float64 tensor with the values of `a`.  About one in four 3-D/4-D tensors - and one in three 5-D/6-D band-pass tensors - is handed over as a
    NON-CONTIGUOUS view with the same values (transposed storage, or every other element of a larger
    buffer): the transforms must not care (C16), so every correspondence and oracle doubles as a
    layout-independence check."""
    a = np.asarray(a, dtype=np.float64)
    if a.ndim in (3, 4) and a.size > 1:
        r = _u(a, 'view')
        if r < 0.10:
            perm = list(range(a.ndim)); perm[-1], perm[-2] = perm[-2], perm[-1]
            return torch.tensor(np.ascontiguousarray(a.transpose(perm)), dtype=torch.float64).transpose(-1, -2)
        if r < 0.18:
            big = torch.zeros(a.shape[:-1] + (2 * a.shape[-1],), dtype=torch.float64)
            big[..., ::2] = torch.tensor(a, dtype=torch.float64)
            return big[..., ::2]
        if r < 0.24 and a.shape[0] * a.shape[1] > 1:
            # stored as (C, N, ...), seen as (N, C, ...)
            return torch.tensor(np.ascontiguousarray(np.swapaxes(a, 0, 1)), dtype=torch.float64).transpose(0, 1)
        if r < 0.28 and a.ndim == 4:
            return torch.tensor(a, dtype=torch.float64).contiguous(memory_format=torch.channels_last)
    if a.ndim in (5, 6) and a.size > 1:
        # band-pass levels (N, C, bands, H, W[, 2]): the ways such a tensor reaches an inverse transform other than fresh from
        # the forward one - the detail part `block[:, :, 1:]` of a larger coefficient block, storage with the band axis in
        # front of the channel axis, a spatial crop, every other sample of a wider buffer.  Same values, other strides.
        r = _u(a, 'view5')
        t = torch.tensor(a, dtype=torch.float64)
        if r < 0.12:
            big = torch.zeros(a.shape[:2] + (a.shape[2] + 1,) + a.shape[3:], dtype=torch.float64)
            big[:, :, 1:] = t
            return big[:, :, 1:]
        if r < 0.22:
            return torch.tensor(np.ascontiguousarray(np.swapaxes(a, 1, 2)), dtype=torch.float64).transpose(1, 2)
        if r < 0.30:
            big = torch.zeros(a.shape[:3] + (a.shape[3] + 2, a.shape[4] + 1) + a.shape[5:], dtype=torch.float64)
            big[:, :, :, 1:a.shape[3] + 1, 1:] = t
            return big[:, :, :, 1:a.shape[3] + 1, 1:]
        if r < 0.36 and a.ndim == 5:
            big = torch.zeros(a.shape[:-1] + (2 * a.shape[-1],), dtype=torch.float64)
            big[..., ::2] = t
            return big[..., ::2]
    return torch.tensor(a, dtype=torch.float64)


def N(t):
    return None if t is None else t.detach().cpu().numpy().astype(np.float64)


def layout_views(a, dtype=torch.float64):
    """the deterministic covering set of memory layouts for a 4-D batch (N, C, H, W): tensors with the values of `a` whose
    batch / channel / spatial strides are what users really hand over (NHWC data, a channel or batch slice of a larger
    tensor, channel-major storage, a spatial crop).  Returns [(name, tensor)]."""
    a = np.asarray(a, dtype=np.float64)
    n, c, h, w = a.shape
    t = torch.tensor(a, dtype=dtype)
    out = [('contiguous', t), ('channels_last', t.contiguous(memory_format=torch.channels_last))]
    big = torch.zeros((n, c + 1, h, w), dtype=dtype); big[:, :c] = t
    out.append(('channel-slice of a larger tensor', big[:, :c]))
    big = torch.zeros((2 * n, c, h, w), dtype=dtype); big[::2] = t
    out.append(('every other batch item of a larger tensor', big[::2]))
    out.append(('stored channel-major (C,N,H,W)', torch.tensor(np.ascontiguousarray(np.swapaxes(a, 0, 1)), dtype=dtype).transpose(0, 1)))
    big = torch.zeros((n, c, h + 2, w + 3), dtype=dtype); big[:, :, 1:h + 1, 2:w + 2] = t
    out.append(('spatial crop of a larger tensor', big[:, :, 1:h + 1, 2:w + 2]))
    return out


def ll():
    import pytorch_wavelets.dwt.lowlevel as lowlevel
    return lowlevel


def _f32_exact_small(*arrs):
    """integer-valued data small enough that every partial sum of a filter bank stays exactly representable in float32"""
    return all(np.all(np.asarray(a) == np.round(a)) and (np.abs(a).max() if np.size(a) else 0) <= 64 for a in arrs)


def _as_taps(w, k):
    """the functional API also takes the filters as a list / NumPy array of taps (it then prepares them itself)"""
    w = np.asarray(w, dtype=np.float64).ravel()
    return [float(v) for v in w] if k % 2 == 0 else w.copy()


def afb1d(ps, ts):
    ax, m = ps
    w0, w1, x = ts
    if x.ndim == 4 and _f32_exact_small(w0, w1, x) and _u(x, 'taps') < 0.3:
        # documented second form: taps as lists / arrays (un-reversed: afb1d reverses non-tensor filters itself and builds
        # float32 kernels, so the data is float32 too - exact for these integers)
        y = ll().afb1d(torch.tensor(x, dtype=torch.float32), _as_taps(np.asarray(w0)[::-1], 0), _as_taps(np.asarray(w1)[::-1], 1), mode=LM(m, ps, ts), dim=ax)
        return [N(y)]
    return [N(ll().afb1d(T(x), T(w0), T(w1), mode=LM(m, ps, ts), dim=ax))]


def afb1d_atrous(ps, ts):
    ax, m, d = ps
    w0, w1, x = ts
    return [N(ll().afb1d_atrous(T(x), T(w0), T(w1), mode=LM(m, ps, ts), dim=ax, dilation=d))]


def sfb1d(ps, ts):
    ax, m = ps
    g0, g1, lo, hi = ts
    # (not at the degenerate sizes where the transposed convolution has no output: torch's float32 and float64 kernels
    # disagree there on whether that is an error, which is not the library's business)
    if lo.ndim == 4 and _f32_exact_small(g0, g1, lo, hi) and 2 * (lo.shape[ax] - 1) + np.size(g0) >= 2 * (np.size(g0) - 2) + 1 and _u(lo, 'taps') < 0.3:
        y = ll().sfb1d(torch.tensor(lo, dtype=torch.float32), torch.tensor(hi, dtype=torch.float32), _as_taps(g0, 1), _as_taps(g1, 0), mode=LM(m, ps, ts), dim=ax)
        return [N(y)]
    return [N(ll().sfb1d(T(lo), T(hi), T(g0), T(g1), mode=LM(m, ps, ts), dim=ax))]


def AFB1D_fwd(ps, ts):
    (m,) = ps
    w0, w1, x = ts
    x0, x1 = ll().AFB1D.apply(T(x), T(w0).reshape(1, 1, -1), T(w1).reshape(1, 1, -1), m)
    return [N(x0), N(x1)]


def AFB1D_bwd(ps, ts):
    m, n = ps
    w0, w1, d0, d1 = ts
    x = torch.zeros(d0.shape[0], d0.shape[1], n, dtype=torch.float64, requires_grad=True)
    try:
        x0, x1 = ll().AFB1D.apply(x, T(w0).reshape(1, 1, -1), T(w1).reshape(1, 1, -1), m)
    except Exception:
        raise rt.HarnessSkip('forward pass raises')
    if tuple(x0.shape) != tuple(d0.shape) or tuple(x1.shape) != tuple(d1.shape):
        raise rt.HarnessSkip('cotangent shape does not match forward output')
    (g,) = torch.autograd.grad([x0, x1], x, [T(d0), T(d1)])
    return [N(g)]


def SFB1D_fwd(ps, ts):
    (m,) = ps
    g0, g1, lo, hi = ts
    return [N(ll().SFB1D.apply(T(lo), T(hi), T(g0).reshape(1, 1, -1), T(g1).reshape(1, 1, -1), m))]


def _grads(outs, ins, cots):
    need = [i for i in ins if i.requires_grad]
    if not need:
        return [None for _ in ins]
    gs = torch.autograd.grad(outs, need, cots, allow_unused=True)
    it = iter(gs)
    return [N(next(it)) if i.requires_grad else None for i in ins]


def SFB1D_bwd(ps, ts):
    m, n, mask = ps
    g0, g1, dy = ts
    b, c = dy.shape[0], dy.shape[1]
    lo = torch.zeros(b, c, n, dtype=torch.float64, requires_grad=bool(mask & 1))
    hi = torch.zeros(b, c, n, dtype=torch.float64, requires_grad=bool(mask & 2))
    try:
        y = ll().SFB1D.apply(lo, hi, T(g0).reshape(1, 1, -1), T(g1).reshape(1, 1, -1), m)
    except Exception:
        raise rt.HarnessSkip('forward pass raises')
    if tuple(y.shape) != tuple(dy.shape):
        raise rt.HarnessSkip('cotangent shape does not match forward output')
    return _grads([y], [lo, hi], [T(dy)])


def SFB2D_bwd(ps, ts):
    m, h, w, mask = ps
    gr0, gr1, gc0, gc1, dy = ts
    b, c = dy.shape[0], dy.shape[1]
    lo = torch.zeros(b, c, h, w, dtype=torch.float64, requires_grad=bool(mask & 1))
    hi = torch.zeros(b, c, 3, h, w, dtype=torch.float64, requires_grad=bool(mask & 2))
    try:
        y = ll().SFB2D.apply(lo, hi, T(gr0).reshape(1, 1, 1, -1), T(gr1).reshape(1, 1, 1, -1),
                             T(gc0).reshape(1, 1, -1, 1), T(gc1).reshape(1, 1, -1, 1), m)
    except Exception:
        raise rt.HarnessSkip('forward pass raises')
    if tuple(y.shape) != tuple(dy.shape):
        raise rt.HarnessSkip('cotangent shape does not match forward output')
    return _grads([y], [lo, hi], [T(dy)])


def AFB2D_fwd(ps, ts):
    (m,) = ps
    wr0, wr1, wc0, wc1, x = ts
    low, highs = ll().AFB2D.apply(T(x), T(wr0).reshape(1, 1, 1, -1), T(wr1).reshape(1, 1, 1, -1),
                                  T(wc0).reshape(1, 1, -1, 1), T(wc1).reshape(1, 1, -1, 1), m)
    return [N(low), N(highs)]


def AFB2D_bwd(ps, ts):
    m, h, w = ps
    wr0, wr1, wc0, wc1, dl, dh = ts
    x = torch.zeros(dl.shape[0], dl.shape[1], h, w, dtype=torch.float64, requires_grad=True)
    try:
        low, highs = ll().AFB2D.apply(x, T(wr0).reshape(1, 1, 1, -1), T(wr1).reshape(1, 1, 1, -1),
                                      T(wc0).reshape(1, 1, -1, 1), T(wc1).reshape(1, 1, -1, 1), m)
    except Exception:
        raise rt.HarnessSkip('forward pass raises')
    if tuple(low.shape) != tuple(dl.shape) or tuple(highs.shape) != tuple(dh.shape):
        raise rt.HarnessSkip('cotangent shape does not match forward output')
    (g,) = torch.autograd.grad([low, highs], x, [T(dl), T(dh)])
    return [N(g)]


def SFB2D_fwd(ps, ts):
    (m,) = ps
    gr0, gr1, gc0, gc1, low, highs = ts
    y = ll().SFB2D.apply(T(low), T(highs), T(gr0).reshape(1, 1, 1, -1), T(gr1).reshape(1, 1, 1, -1),
                         T(gc0).reshape(1, 1, -1, 1), T(gc1).reshape(1, 1, -1, 1), m)
    return [N(y)]


# When an oracle exercises a NAMED PyWavelets wavelet it sets WNAME (a name, or a (column, row) pair of names):
# the module is then constructed from the name, the way users do, so that the name-resolution path
# (pywt lookup, any per-name preparation or caching of the filters) is part of what is compared.
WNAME = None


class named:
    def __init__(self, name):
        ok = isinstance(name, str) or (isinstance(name, (tuple, list)) and all(isinstance(n, str) for n in name))
        self.v = (name if isinstance(name, str) else tuple(name)) if ok else None

    def __enter__(self):
        global WNAME
        WNAME = self.v

    def __exit__(self, *a):
        global WNAME
        WNAME = None


class Mutated(Exception):
    """the library changed a container the caller passed in"""


def _inverse_with_list_history(mod, yl, yh):
    """`yh` is the caller's own Python list.  When its coarsest entry is None the same list object is first
    used for a call with a one-sample-longer low-pass (a different, valid pyramid), then for the call under
    test; afterwards the list must still hold exactly the caller's objects."""
    before = list(yh)
    if yh and yh[-1] is None and _u(yl.detach().cpu().numpy(), 'list') < 0.5:
        try:
            with torch.no_grad():
                mod((torch.cat([yl, yl[..., -1:]], dim=-1), yh))
        except Exception:
            pass
    y = mod((yl, yh))
    if len(yh) != len(before) or any(a is not b for a, b in zip(yh, before)):
        raise Mutated('the list of band-pass levels passed by the caller was modified (entries %s replaced)' % [i for i, (a, b) in enumerate(zip(yh, before)) if a is not b])
    return y


def _wave(ts, nw):
    """the `wave` constructor argument: a name (when set), or the documented tuple of arrays - handed over in one of the
    forms a caller may use for "a tuple of numpy arrays" (1-D arrays, plain lists, (L,1) column vectors as the library's
    own dtcwt tables are stored); the form is determined by the filter contents, so replays reproduce it"""
    if WNAME is not None:
        return WNAME
    fs = [np.array(t, dtype=np.float64).ravel().copy() for t in ts[:nw]]      # private copies: they are scribbled over after construction
    if os.environ.get('VERIF_NO_FORMS') == '1':
        return tuple(fs)
    k = _hashlib.sha1(repr([f.tolist() for f in fs]).encode()).digest()[1] % 4
    if k == 1:
        return tuple(f.tolist() for f in fs)
    if k == 2:
        return tuple(f.reshape(-1, 1).copy() for f in fs)
    if k == 3:
        return [f.copy() for f in fs]
    return tuple(fs)


def _scribble(w):
    """after a module has been constructed from the caller's arrays, the caller re-uses those arrays for something else:
    a module's filters are its own copy (the wavelet is a construction PARAMETER, i.e. its value at construction)"""
    if isinstance(w, (tuple, list)):
        for f in w:
            if isinstance(f, np.ndarray) and f.flags.writeable:
                f *= -3.0; f += 7.0


_TWINS = []          # decoy instances are kept alive: their (changed) state must never matter to anybody else


def _twin(M, w, **kw):
    """ANOTHER instance constructed with equal arguments, whose filters are then overwritten in place through the standard
    nn.Module API (load_state_dict of a same-shaped checkpoint): instances own their state, equal construction arguments or not"""
    import copy
    try:
        w2 = copy.deepcopy(w)
        tw = M(wave=w2, **kw)
        with torch.no_grad():
            sd = {k: (v.flip(-1) * 1.5 + 0.25 if v.is_floating_point() and v.numel() else v.clone()) for k, v in tw.state_dict().items()}
            tw.load_state_dict(sd)
        _TWINS.append(tw)
        del _TWINS[:-8]
    except Exception:
        pass


def _decoy(M, w, **kw):
    """a LATER instance of the same class constructed with DIFFERENT arguments (longer filters, one more level) before the
    instance under test is used: what another instance was built with is nobody else's business (no class-level or
    module-level state keyed by level, length or name)"""
    try:
        if isinstance(w, str):
            w2 = 'db4' if w != 'db4' else 'db2'
        else:
            w2 = tuple(np.concatenate([np.asarray(f, dtype=np.float64).ravel(), [1.0, -2.0]]) for f in w)
        kw2 = dict(kw)
        if isinstance(kw2.get('J'), int):
            kw2['J'] = kw2['J'] + 1
        _TWINS.append(M(wave=w2, **kw2))
        del _TWINS[:-8]
    except Exception:
        pass


def _adopted(M, w, right, **kw):
    """an instance constructed with OTHER filters of the same lengths that then takes over the state of the intended
    one through the standard API (load_state_dict) and goes through a dtype round trip that is exact for its values
    (.float().double() when every buffer is float32-exact): a module IS its state, whatever it was constructed with"""
    try:
        w2 = tuple(np.asarray(f, dtype=np.float64).ravel()[::-1] * 2.0 + 1.0 for f in w)
        other = M(wave=w2, **kw)
        sd = right.state_dict()
        if not sd or any(a.shape != b.shape for a, b in zip(other.state_dict().values(), sd.values())):
            return right
        other.load_state_dict({k: v.clone() for k, v in sd.items()})
        fl = [v for v in other.state_dict().values() if v.is_floating_point()]
        if fl and all(v.dtype == torch.float64 for v in fl) and all(bool((v.float().double() == v).all()) for v in fl):
            other.float(); other.double()
        return other
    except Exception:
        return right


def deferred(make, right):
    """the deferred-initialisation workflow of nn.Module: the same constructor call under torch.device('meta'), then
    .to_empty(device='cpu'), then load_state_dict of a normally built instance - the state dict carries the filters"""
    try:
        with torch.device('meta'):
            other = make()
        other = other.to_empty(device='cpu')
        other.load_state_dict({k: v.clone() for k, v in right.state_dict().items()})
        return other
    except Exception:
        return right


def _build(M, w, force=None, **kw):
    """force: None (content-determined history), 'adopt' or 'deferred' (the instance takes over its state, see _adopted / deferred)"""
    order = 0
    if force is not None:
        import copy as _copy
        right = M(wave=_copy.deepcopy(w), **kw)
        wc = _copy.deepcopy(w)
        mod = _adopted(M, w, right, **kw) if force == 'adopt' else deferred(lambda: M(wave=wc, **kw), right)
        _scribble(w)
        return mod
    if not isinstance(w, str) and os.environ.get('VERIF_NO_TWINS') != '1':
        try:
            order = 1 + _hashlib.sha1(repr([np.asarray(f).tolist() for f in w]).encode()).digest()[2] % 3     # 1: twin first, 2: twin after, 3: the instance adopts its state from another one
        except Exception:
            order = 0
    if order == 1:
        _twin(M, w, **kw)
    mod = M(wave=w, **kw)
    if order == 2:
        _twin(M, w, **kw)
    if order == 3:
        import copy as _copy
        wc = _copy.deepcopy(w)
        mod = _adopted(M, w, mod, **kw) if _hashlib.sha1(repr([np.asarray(f).tolist() for f in w]).encode()).digest()[3] % 2 == 0 else deferred(lambda: M(wave=wc, **kw), mod)
    if os.environ.get('VERIF_NO_TWINS') != '1':
        _decoy(M, w, **kw)
    _scribble(w)
    return mod


def DWT1DForward(ps, ts):
    m, J = ps
    h0, h1, x = ts
    from pytorch_wavelets.dwt.transform1d import DWT1DForward as M
    mod = _build(M, _wave(ts, 2), J=J, mode=LM(m, ps, ts))
    yl, yh = mod(T(x))
    return [N(yl)] + [N(h) for h in yh]


def DWT1DInverse(ps, ts):
    (m,) = ps
    g0, g1, yl = ts[:3]
    yh = ts[3:]
    from pytorch_wavelets.dwt.transform1d import DWT1DInverse as M
    mod = _build(M, _wave(ts, 2), mode=LM(m, ps, ts))
    y = _inverse_with_list_history(mod, T(yl), [None if h is None else T(h) for h in yh])
    return [N(y)]


def DWTForward(ps, ts):
    m, J, nw = ps
    from pytorch_wavelets.dwt.transform2d import DWTForward as M
    mod = _build(M, _wave(ts, nw), J=J, mode=LM(m, ps, ts))
    yl, yh = mod(T(ts[nw]))
    return [N(yl)] + [N(h) for h in yh]


def DWTInverse(ps, ts):
    m, nw = ps
    from pytorch_wavelets.dwt.transform2d import DWTInverse as M
    mod = _build(M, _wave(ts, nw), mode=LM(m, ps, ts))
    yl = ts[nw]
    yh = ts[nw + 1:]
    y = _inverse_with_list_history(mod, T(yl), [None if h is None else T(h) for h in yh])
    return [N(y)]


def SWTForward(ps, ts):
    m, J, nw = ps
    from pytorch_wavelets.dwt.transform2d import SWTForward as M
    mod = _build(M, _wave(ts, nw), J=J, mode=LM(m, ps, ts))
    return [N(c) for c in mod(T(ts[nw]))]


def _prep_afb(ts):
    wc0, wc1, wr0, wr1 = ts[:4]
    return (T(wc0).reshape(1, 1, -1, 1), T(wc1).reshape(1, 1, -1, 1), T(wr0).reshape(1, 1, 1, -1), T(wr1).reshape(1, 1, 1, -1))


def afb2d(ps, ts):
    (m,) = ps
    return [N(ll().afb2d(T(ts[4]), _prep_afb(ts), mode=LM(m, ps, ts)))]


def afb2d_atrous(ps, ts):
    m, d = ps
    return [N(ll().afb2d_atrous(T(ts[4]), _prep_afb(ts), mode=LM(m, ps, ts), dilation=d))]


def sfb2d(ps, ts):
    (m,) = ps
    filts = _prep_afb(ts)
    l_, lh, hl, hh = ts[4:8]
    return [N(ll().sfb2d(T(l_), T(lh), T(hl), T(hh), filts, mode=LM(m, ps, ts)))]


def _nonsep_filts(prep, form, c0, c1, r0, r1):
    """every documented way of naming the four filters.  form: 0 prepared tensor (four arguments), 1 list of four filters;
    when an axis pair is shared, the row filters may be LEFT TO DEFAULT: 2 tuple of two filters, 3 list with None rows,
    4 prepared tensor from the two-argument call, 5 prepared tensor with the shared row filters given as None one at a time"""
    s0, s1 = np.array_equal(c0, r0), np.array_equal(c1, r1)
    if form == 1:
        return [c0, c1, r0, r1]
    if form == 2 and s0 and s1:
        return (c0, c1)
    if form == 3 and (s0 or s1):
        return [c0, c1, None if s0 else r0, None if s1 else r1]
    if form == 4 and s0 and s1:
        return prep(c0, c1).to(torch.float64)
    if form == 5 and (s0 or s1):
        return prep(c0, c1, None if s0 else r0, None if s1 else r1).to(torch.float64)
    return prep(c0, c1, r0, r1).to(torch.float64)


def afb2d_nonsep(ps, ts):
    m, form = ps
    hc0, hc1, hr0, hr1, x = ts
    return [N(ll().afb2d_nonsep(T(x), _nonsep_filts(ll().prep_filt_afb2d_nonsep, form, hc0, hc1, hr0, hr1), mode=LM(m, ps, ts)))]


def sfb2d_nonsep(ps, ts):
    m, form = ps
    gc0, gc1, gr0, gr1, co = ts
    return [N(ll().sfb2d_nonsep(T(co), _nonsep_filts(ll().prep_filt_sfb2d_nonsep, form, gc0, gc1, gr0, gr1), mode=LM(m, ps, ts)))]


IMPL = {k: v for k, v in list(globals().items()) if callable(v) and k[0] != '_' and k not in ('T', 'N', 'll', 'named', 'Mutated')}
