"""Pull-backs through one recorded graph in the ways users do it: every output given a cotangent, a loss
that uses only some of the outputs (autograd then hands the Function `None` or zeros for the others), and
repeated pull-backs through the same retained graph (two losses sharing one transform, jacobian, gradcheck)."""
import torch


def pull_variants(rng, outs, ins, newcot, repeats=2, second=None):
    n = len(outs)
    plans = [('every output has a cotangent', [True] * n)]
    if n > 1:
        sub = [rng.random() < 0.5 for _ in range(n)]
        if not any(sub):
            sub[rng.randrange(n)] = True
        if all(sub):
            sub[rng.randrange(n)] = False
        plans.append(('loss over outputs %s only' % [i for i, u in enumerate(sub) if u], sub))
        plans.append(('loss over output 0 only', [True] + [False] * (n - 1)))
    for r in range(repeats):
        plans.append(('pull-back no. %d through the same retained graph' % (len(plans) + 1), [True] * n))
    # a pull-back whose own computation is recorded (create_graph=True: gradient penalties, second-order optimisers): grad mode is
    # ENABLED inside the backward pass, the cotangents themselves are plain tensors
    plans.insert(1, ('the backward pass recorded (create_graph=True)', [True] * n))
    # cotangents that arrive in another memory layout (the consumer of an output was channels-last / time-major): same values
    plans.insert(2, ('cotangents in a non-contiguous memory layout', [True] * n))
    for k, (label, used) in enumerate(plans):
        cots = [newcot(o) for o in outs]
        if k == 2:
            cots = [c.transpose(1, -1).contiguous().transpose(1, -1) if c.dim() >= 3 else c for c in cots]
        eff = [c if u else torch.zeros_like(c) for c, u in zip(cots, used)]
        last = k == len(plans) - 1
        if k == 1:
            if second is not None:
                # the pull-back g -> J^T g is itself a (linear) function of the cotangents; differentiated once more along a
                # direction u it must give J u (gradient penalties, Hessian-vector products, double-backward tricks for jvp)
                # (the cotangents are results of an upstream computation, as in a real graph - not leaves)
                cr = [c.clone().requires_grad_(True) for c in cots]
                g1 = torch.autograd.grad(outs, ins, [c * 1.0 for c in cr], allow_unused=True, retain_graph=True, create_graph=True)
                live = [(i, g) for i, g in enumerate(g1) if g is not None and g.requires_grad]
                if live:
                    us = [newcot(g) for _, g in live]
                    jv = torch.autograd.grad([g for _, g in live], cr, us, allow_unused=True, retain_graph=True)
                    second([i for i, _ in live], us, [torch.zeros_like(c) if j is None else j.detach() for j, c in zip(jv, cr)])
            grads = torch.autograd.grad(outs, ins, cots, allow_unused=True, retain_graph=True, create_graph=True)
            grads = tuple(None if g is None else g.detach() for g in grads)
        elif all(used):
            grads = torch.autograd.grad(outs, ins, cots, allow_unused=True, retain_graph=not last)
        else:
            loss = sum((o * c).sum() for o, c, u in zip(outs, cots, used) if u)
            grads = torch.autograd.grad(loss, ins, allow_unused=True, retain_graph=not last)
        yield label, eff, grads
