"""Pull-backs through one recorded graph in the ways users do it: every output given a cotangent, a loss
that uses only some of the outputs (autograd then hands the Function `None` or zeros for the others), and
repeated pull-backs through the same retained graph (two losses sharing one transform, jacobian, gradcheck)."""
import torch


def pull_variants(rng, outs, ins, newcot, repeats=2):
    n = len(outs)
    plans = [('every output has a cotangent', [True] * n)]
    if n > 1:
        sub = [rng.random() < 0.5 for _ in range(n)]
        if not any(sub):
            sub[rng.randrange(n)] = True
        if all(sub):
            sub[rng.randrange(n)] = False
        plans.append(('loss over outputs %s only' % [i for i, u in enumerate(sub) if u], sub))
        plans.append(('loss over output 0 only', [True] + [False] * (n - 1)))
    for r in range(repeats):
        plans.append(('pull-back no. %d through the same retained graph' % (len(plans) + 1), [True] * n))
    for k, (label, used) in enumerate(plans):
        cots = [newcot(o) for o in outs]
        eff = [c if u else torch.zeros_like(c) for c, u in zip(cots, used)]
        last = k == len(plans) - 1
        if all(used):
            grads = torch.autograd.grad(outs, ins, cots, allow_unused=True, retain_graph=not last)
        else:
            loss = sum((o * c).sum() for o, c, u in zip(outs, cots, used) if u)
            grads = torch.autograd.grad(loss, ins, allow_unused=True, retain_graph=not last)
        yield label, eff, grads
