"""Translators: regenerate lean/WaveletsVerif/Gen/*.lean from /repo on every run.

* Tables.lean  — every array of every dtcwt/data/*.npz as exact dyadic rationals
                 (integer numerators with one common binary exponent per array),
                 plus the key tuples the loaders in coeffs.py request.
* Dims.lean    — get_dimensions5 / get_dimensions6 (straight-line integer Python).
* Modes.lean   — both copies of mode_to_int / int_to_mode.

Anything outside the supported Python subset raises TranslateError (reported as
"translator cannot follow the source", handled like a broken proof).
"""
import ast, os, glob, io
from fractions import Fraction
import numpy as np
from . import rt

GEN = os.path.join(rt.LEAN, 'WaveletsVerif', 'Gen')


class TranslateError(Exception):
    pass


def _write(path, text):
    os.makedirs(os.path.dirname(path), exist_ok=True)
    old = None
    if os.path.exists(path):
        old = open(path, encoding='utf-8').read()
    if old == text:
        return False
    tmp = path + '.tmp%d' % os.getpid()
    with open(tmp, 'w', encoding='utf-8') as f:
        f.write(text)
    os.replace(tmp, path)
    return True


# ---------------------------------------------------------------------------
# integer-Python subset -> Lean
# ---------------------------------------------------------------------------

class FnTranslator:
    """def f(a, b): straight-line ints, if/elif/else, aug-assign, tuple return, raise"""

    def __init__(self, fn):
        self.fn = fn
        self.args = [a.arg for a in fn.args.args]

    def expr(self, e):
        if isinstance(e, ast.Constant) and isinstance(e.value, bool):
            return 'True' if e.value else 'False'
        if isinstance(e, ast.Constant) and isinstance(e.value, int):
            return '(%d : Int)' % e.value
        if isinstance(e, ast.Constant) and isinstance(e.value, str):
            return '"%s"' % e.value
        if isinstance(e, ast.Name):
            return e.id
        if isinstance(e, ast.UnaryOp) and isinstance(e.op, ast.USub):
            return '(-%s)' % self.expr(e.operand)
        if isinstance(e, ast.BinOp):
            a, b = self.expr(e.left), self.expr(e.right)
            if isinstance(e.op, ast.Add): return '(%s + %s)' % (a, b)
            if isinstance(e.op, ast.Sub): return '(%s - %s)' % (a, b)
            if isinstance(e.op, ast.Mult): return '(%s * %s)' % (a, b)
            if isinstance(e.op, ast.Mod):
                if not (isinstance(e.right, ast.Constant) and isinstance(e.right.value, int) and e.right.value > 0):
                    raise TranslateError('% with a non-constant or non-positive modulus')
                return '(%s %% %s)' % (a, b)        # Int.emod = Python % for positive modulus
            if isinstance(e.op, ast.FloorDiv):
                if not (isinstance(e.right, ast.Constant) and isinstance(e.right.value, int) and e.right.value > 0):
                    raise TranslateError('// with a non-constant or non-positive divisor')
                return '(%s / %s)' % (a, b)         # Int.ediv = Python // for positive divisor
            raise TranslateError('operator %s' % type(e.op).__name__)
        if isinstance(e, ast.Compare):
            if len(e.ops) != 1:
                raise TranslateError('chained comparison')
            a, b = self.expr(e.left), self.expr(e.comparators[0])
            op = e.ops[0]
            sym = {ast.Lt: '<', ast.LtE: '≤', ast.Gt: '>', ast.GtE: '≥', ast.Eq: '=', ast.NotEq: '≠'}.get(type(op))
            if sym is None:
                raise TranslateError('comparison %s' % type(op).__name__)
            return '(%s %s %s)' % (a, sym, b)
        if isinstance(e, ast.BoolOp):
            sym = ' ∧ ' if isinstance(e.op, ast.And) else ' ∨ '
            return '(' + sym.join(self.expr(v) for v in e.values) + ')'
        if isinstance(e, ast.UnaryOp) and isinstance(e.op, ast.Not):
            return '(¬ %s)' % self.expr(e.operand)
        if isinstance(e, ast.Tuple):
            return '(' + ', '.join(self.expr(v) for v in e.elts) + ')'
        raise TranslateError('expression %s' % ast.dump(e)[:80])

    def assigned(self, body):
        out = []
        for s in body:
            if isinstance(s, ast.Assign):
                for t in s.targets:
                    if not isinstance(t, ast.Name):
                        raise TranslateError('assignment target')
                    if t.id not in out: out.append(t.id)
            elif isinstance(s, ast.AugAssign):
                if s.target.id not in out: out.append(s.target.id)
            elif isinstance(s, ast.If):
                for v in self.assigned(s.body) + self.assigned(s.orelse):
                    if v not in out: out.append(v)
        return out

    def returns(self, body):
        return any(isinstance(s, (ast.Return, ast.Raise)) or (isinstance(s, ast.If) and (self.returns(s.body) or self.returns(s.orelse))) for s in body)

    def block(self, body, defined, tail, ind):
        """translate statements; `tail` is the Lean expression text producing the block's value
        when control falls off the end (None = must return)."""
        pad = '  ' * ind
        if not body:
            if tail is None:
                raise TranslateError('control reaches the end of the function without return')
            return pad + tail
        s, rest = body[0], body[1:]
        if isinstance(s, ast.Expr) and isinstance(s.value, ast.Constant) and isinstance(s.value.value, str):
            return self.block(rest, defined, tail, ind)            # docstring
        if isinstance(s, ast.Return):
            return pad + 'some ' + self.expr(s.value)
        if isinstance(s, ast.Raise):
            return pad + 'none'
        if isinstance(s, ast.Assign):
            if len(s.targets) != 1 or not isinstance(s.targets[0], ast.Name):
                raise TranslateError('assignment form')
            v = s.targets[0].id
            return pad + 'let %s := %s\n' % (v, self.expr(s.value)) + self.block(rest, defined | {v}, tail, ind)
        if isinstance(s, ast.AugAssign):
            v = s.target.id
            if v not in defined:
                raise TranslateError('augmented assignment to undefined %s' % v)
            op = {ast.Add: '+', ast.Sub: '-', ast.Mult: '*'}.get(type(s.op))
            if op is None:
                raise TranslateError('augmented operator')
            return pad + 'let %s := %s %s %s\n' % (v, v, op, self.expr(s.value)) + self.block(rest, defined, tail, ind)
        if isinstance(s, ast.If):
            if self.returns(s.body) or self.returns(s.orelse):
                # branches may return: continuation is duplicated into the branches
                cont = lambda d: self.block(rest, d, tail, ind + 1) if (rest or tail is not None) else None
                def br(b):
                    vs = set(self.assigned(b))
                    if self.returns(b) and not rest and tail is None:
                        return self.block(b, defined, None, ind + 1)
                    # inline the rest after the branch
                    return self.block(b + rest, defined, tail, ind + 1)
                return (pad + 'if %s then\n' % self.expr(s.test) + br(s.body) + '\n' + pad + 'else\n' + br(s.orelse))
            vs = self.assigned([s])
            for v in vs:
                for b in (s.body, s.orelse):
                    if v not in defined and v not in self.assigned(b):
                        raise TranslateError('%s may be undefined after if' % v)
            tup = '(' + ', '.join(vs) + ')' if len(vs) > 1 else vs[0]
            t1 = self.block(s.body, defined, tup, ind + 1)
            t2 = self.block(s.orelse, defined, tup, ind + 1)
            return (pad + 'let %s : %s :=\n' % (tup, ' × '.join(['Int'] * len(vs))) + pad + '  if %s then\n' % self.expr(s.test)
                    + '  ' + t1.replace('\n', '\n  ') + '\n' + pad + '  else\n' + '  ' + t2.replace('\n', '\n  ') + '\n'
                    + self.block(rest, defined | set(vs), tail, ind))
        raise TranslateError('statement %s' % type(s).__name__)

    def lean(self, name, argtype='Int', ret='Int × Int × Int × Int'):
        args = ' '.join('(%s : %s)' % (a, argtype) for a in self.args)
        body = self.block(self.fn.body, set(self.args), None, 1)
        return 'def %s %s : Option (%s) :=\n%s\n' % (name, args, ret, body)


def _find_fn(path, name):
    tree = ast.parse(open(path).read())
    for n in tree.body:
        if isinstance(n, ast.FunctionDef) and n.name == name:
            return n
    raise TranslateError('%s not found in %s' % (name, path))


def gen_dims():
    path = os.path.join(rt.REPO, 'pytorch_wavelets', 'dtcwt', 'transform_funcs.py')
    out = ['/- GENERATED on every run by harness/translate.py from', '   pytorch_wavelets/dtcwt/transform_funcs.py — do not edit. -/', 'namespace WV.Gen', '']
    for fn in ('get_dimensions5', 'get_dimensions6'):
        out.append(FnTranslator(_find_fn(path, fn)).lean(fn))
    out.append('end WV.Gen\n')
    return _write(os.path.join(GEN, 'Dims.lean'), '\n'.join(out))


def gen_modes():
    out = ['/- GENERATED on every run by harness/translate.py from the two copies of',
           '   mode_to_int / int_to_mode (dwt/lowlevel.py, scatternet/lowlevel.py) — do not edit. -/', 'namespace WV.Gen', '']
    for tagname, rel in (('dwt', 'dwt/lowlevel.py'), ('scat', 'scatternet/lowlevel.py')):
        path = os.path.join(rt.REPO, 'pytorch_wavelets', rel)
        t = FnTranslator(_find_fn(path, 'mode_to_int'))
        out.append(t.lean('mode_to_int_' + tagname, argtype='String', ret='Int'))
        t = FnTranslator(_find_fn(path, 'int_to_mode'))
        out.append(t.lean('int_to_mode_' + tagname, argtype='Int', ret='String'))
    out.append('end WV.Gen\n')
    return _write(os.path.join(GEN, 'Modes.lean'), '\n'.join(out))


# ---------------------------------------------------------------------------
# npz tables -> exact dyadic rationals
# ---------------------------------------------------------------------------

def dyadic(arr):
    """float64 array -> (list of ints, E) with value_i = ints_i / 2^E exactly"""
    fr = [Fraction(float(v)) for v in np.asarray(arr, dtype=np.float64).ravel()]
    E = 0
    for f in fr:
        d = f.denominator
        e = d.bit_length() - 1
        if (1 << e) != d:
            raise TranslateError('non-dyadic float?')
        E = max(E, e)
    ints = [int(f * (1 << E)) for f in fr]
    return ints, E


def loader_keys():
    """key tuples requested by level1()/qshift() in coeffs.py, parsed from the source"""
    path = os.path.join(rt.REPO, 'pytorch_wavelets', 'dtcwt', 'coeffs.py')
    tree = ast.parse(open(path).read())
    res = {}
    for n in tree.body:
        if isinstance(n, ast.FunctionDef) and n.name in ('level1', 'qshift'):
            tuples = []
            for c in ast.walk(n):
                if isinstance(c, ast.Call) and getattr(c.func, 'id', None) == '_load_from_file':
                    if len(c.args) != 2 or not isinstance(c.args[1], ast.Tuple):
                        raise TranslateError('_load_from_file call form')
                    tuples.append([e.value for e in c.args[1].elts])
            res[n.name] = tuples
    if 'level1' not in res or 'qshift' not in res:
        raise TranslateError('loaders not found in coeffs.py')
    return res


def loader_program():
    """the atomic steps of `_load_from_file` in source order, as the thread model of Model/Cache.lean names them:
    lookup (try the cache), read (the WHOLE file into a local), store (publish the complete table under the name), project.
    Anything else that touches the cache - a placeholder stored before the read, entries added one at a time, an eviction - is a
    step the model does not have, and the tie theorem C18Z.loader_program_gen fails."""
    path = os.path.join(rt.REPO, 'pytorch_wavelets', 'dtcwt', 'coeffs.py')
    src = open(path).read()
    tree = ast.parse(src)
    fn = next((n for n in tree.body if isinstance(n, ast.FunctionDef) and n.name == '_load_from_file'), None)
    if fn is None:
        raise TranslateError('_load_from_file not found in coeffs.py')
    a0 = fn.args.args[0].arg if fn.args.args else None
    cache = 'COEFF_CACHE'

    def is_cache_sub(e):
        return isinstance(e, ast.Subscript) and isinstance(e.value, ast.Name) and e.value.id == cache and isinstance(e.slice, ast.Name) and e.slice.id == a0

    steps = []

    def stmt(n, local):
        # mat = COEFF_CACHE[basename]
        if isinstance(n, ast.Assign) and len(n.targets) == 1 and isinstance(n.targets[0], ast.Name) and is_cache_sub(n.value):
            local['tab'] = n.targets[0].id
            return ['lookup']
        # mat = dict(load(f))
        if isinstance(n, ast.Assign) and len(n.targets) == 1 and isinstance(n.targets[0], ast.Name) and isinstance(n.value, ast.Call) \
                and getattr(n.value.func, 'id', None) == 'dict' and len(n.value.args) == 1 and isinstance(n.value.args[0], ast.Call) \
                and getattr(n.value.args[0].func, 'id', None) == 'load':
            local['tab'] = n.targets[0].id
            return ['read']
        # COEFF_CACHE[basename] = mat
        if isinstance(n, ast.Assign) and len(n.targets) == 1 and is_cache_sub(n.targets[0]) and isinstance(n.value, ast.Name) and n.value.id == local.get('tab'):
            return ['store']
        if isinstance(n, ast.With) and len(n.items) == 1 and isinstance(n.items[0].context_expr, ast.Call) \
                and getattr(n.items[0].context_expr.func, 'id', None) == 'resource_stream':
            return [x for b in n.body for x in stmt(b, local)]
        if isinstance(n, ast.Try) and len(n.handlers) == 1 and getattr(n.handlers[0].type, 'id', None) == 'KeyError' and not n.orelse and not n.finalbody:
            body = [x for b in n.body for x in stmt(b, local)]
            if body == ['lookup']:
                return body + [x for b in n.handlers[0].body for x in stmt(b, local)]
            if body == ['project'] and len(n.handlers[0].body) == 1 and isinstance(n.handlers[0].body[0], ast.Raise):
                return body
            return body + ['other:try']
        # return tuple(mat[k] for k in varnames)
        if isinstance(n, ast.Return) and isinstance(n.value, ast.Call) and getattr(n.value.func, 'id', None) == 'tuple' and len(n.value.args) == 1 \
                and isinstance(n.value.args[0], ast.GeneratorExp) and isinstance(n.value.args[0].elt, ast.Subscript) \
                and getattr(n.value.args[0].elt.value, 'id', None) == local.get('tab'):
            return ['project']
        if isinstance(n, ast.Expr) and isinstance(n.value, ast.Constant):
            return []          # docstring
        return ['other:' + type(n).__name__]

    local = {}
    for n in fn.body:
        steps += stmt(n, local)
    mentions = sum(1 for n in ast.walk(tree) if isinstance(n, ast.Name) and n.id == cache)
    return steps, mentions


def gen_tables():
    d = os.path.join(rt.REPO, 'pytorch_wavelets', 'dtcwt', 'data')
    files = sorted(glob.glob(os.path.join(d, '*.npz')))
    if not files:
        raise TranslateError('no npz tables found')
    out = ['/- GENERATED on every run by harness/translate.py from pytorch_wavelets/dtcwt/data/*.npz',
           '   and dtcwt/coeffs.py — do not edit.  A table entry is (numerators, E): value_i = n_i / 2^E,',
           '   the exact value of the stored float64. -/', 'namespace WV.Gen', '',
           'abbrev Tab := List Int × Nat', '']
    names = []
    for f in files:
        base = os.path.splitext(os.path.basename(f))[0]
        z = np.load(f)
        keys = [k for k in sorted(z.files) if z[k].dtype.kind in 'fiu']     # skip MATLAB header strings
        for k in keys:
            a = z[k]
            if a.dtype != np.float64:
                if a.dtype.kind == 'f':
                    raise TranslateError('%s.%s is stored as %s, not float64' % (base, k, a.dtype))
                a = a.astype(np.float64)
            ints, E = dyadic(a)
            out.append('def %s_%s : Tab := ([%s], %d)' % (base, k, ', '.join(map(str, ints)), E))
        out.append('def %s_keys : List String := [%s]' % (base, ', '.join('"%s"' % k for k in keys)))
        out.append('def %s_table : List (String × Tab) := [%s]' % (base, ', '.join('("%s", %s_%s)' % (k, base, k) for k in keys)))
        out.append('')
        names.append(base)
    out.append('def files : List String := [%s]' % ', '.join('"%s"' % n for n in names))
    out.append('def allTables : List (String × List (String × Tab)) := [%s]' % ', '.join('("%s", %s_table)' % (n, n) for n in names))
    lk = loader_keys()
    for fn, tuples in lk.items():
        out.append('def %s_keysets : List (List String) := [%s]' % (fn, ', '.join('[' + ', '.join('"%s"' % k for k in t) + ']' for t in tuples)))
    steps, mentions = loader_program()
    out.append('/-- the atomic steps of `_load_from_file`, in source order (cache hit: `lookup`, `project`) -/')
    out.append('def loaderSteps : List String := [%s]' % ', '.join('"%s"' % x for x in steps))
    out.append('/-- how many times the module names its cache: the definition, the lookup and the one store -/')
    out.append('def cacheMentions : Nat := %d' % mentions)
    out.append('\nend WV.Gen\n')
    return _write(os.path.join(GEN, 'Tables.lean'), '\n'.join(out))


# ---------------------------------------------------------------------------
# NumPy index helpers (utils.reflect, utils.symm_pad_1d) -> Lean over exact rationals
# ---------------------------------------------------------------------------

class NpTranslator:
    """straight-line NumPy scalar code: + - *, np.fmod, np.where, comparisons, float/int constants.
    `ints` = names holding Python ints (cast to Q where a rational is expected)."""

    def __init__(self, ints=()):
        self.ints = set(ints)

    def q(self, e):
        """expression of rational type"""
        if isinstance(e, ast.Constant) and isinstance(e.value, (int, float)) and not isinstance(e.value, bool):
            f = Fraction(e.value)
            return '((%d : ℚ) / %d)' % (f.numerator, f.denominator) if f.denominator != 1 else '(%d : ℚ)' % f.numerator
        if isinstance(e, ast.Name):
            return '(%s : ℚ)' % e.id if e.id in self.ints else e.id
        if isinstance(e, ast.UnaryOp) and isinstance(e.op, ast.USub):
            return '(-%s)' % self.q(e.operand)
        if isinstance(e, ast.BinOp):
            op = {ast.Add: '+', ast.Sub: '-', ast.Mult: '*'}.get(type(e.op))
            if op is None:
                raise TranslateError('operator %s in a NumPy helper' % type(e.op).__name__)
            return '(%s %s %s)' % (self.q(e.left), op, self.q(e.right))
        if isinstance(e, ast.Call) and _is_np(e.func, 'fmod') and len(e.args) == 2 and not e.keywords:
            return '(fmod %s %s)' % (self.q(e.args[0]), self.q(e.args[1]))
        if isinstance(e, ast.Call) and _is_np(e.func, 'where') and len(e.args) == 3 and not e.keywords:
            return '(if %s then %s else %s)' % (self.cond(e.args[0]), self.q(e.args[1]), self.q(e.args[2]))
        raise TranslateError('NumPy helper expression %s' % ast.dump(e)[:80])

    def z(self, e):
        """expression of integer type"""
        if isinstance(e, ast.Constant) and isinstance(e.value, int) and not isinstance(e.value, bool):
            return '(%d : Int)' % e.value
        if isinstance(e, ast.Name) and e.id in self.ints:
            return e.id
        if isinstance(e, ast.UnaryOp) and isinstance(e.op, ast.USub):
            return '(-%s)' % self.z(e.operand)
        if isinstance(e, ast.BinOp) and isinstance(e.op, (ast.Add, ast.Sub, ast.Mult)):
            op = {ast.Add: '+', ast.Sub: '-', ast.Mult: '*'}[type(e.op)]
            return '(%s %s %s)' % (self.z(e.left), op, self.z(e.right))
        raise TranslateError('integer expression %s' % ast.dump(e)[:80])

    def cond(self, e):
        if isinstance(e, ast.Compare) and len(e.ops) == 1:
            sym = {ast.Lt: '<', ast.LtE: '≤', ast.Gt: '>', ast.GtE: '≥'}.get(type(e.ops[0]))
            if sym is None:
                raise TranslateError('comparison in a NumPy helper')
            return '(%s %s %s)' % (self.q(e.left), sym, self.q(e.comparators[0]))
        raise TranslateError('condition %s' % ast.dump(e)[:80])


def _is_np(f, name):
    return isinstance(f, ast.Attribute) and f.attr == name and isinstance(f.value, ast.Name) and f.value.id == 'np'


def _body(fn):
    b = list(fn.body)
    if b and isinstance(b[0], ast.Expr) and isinstance(b[0].value, ast.Constant) and isinstance(b[0].value.value, str):
        b = b[1:]
    return b


def _translate_reflect(fn):
    args = [a.arg for a in fn.args.args]
    if len(args) != 3:
        raise TranslateError('reflect: expected 3 parameters')
    x = args[0]
    t = NpTranslator()
    lines = []
    body = _body(fn)
    if not body or not isinstance(body[-1], ast.Return):
        raise TranslateError('reflect: no final return')
    for s in body[:-1]:
        if not (isinstance(s, ast.Assign) and len(s.targets) == 1 and isinstance(s.targets[0], ast.Name)):
            raise TranslateError('reflect: statement %s' % type(s).__name__)
        v = s.targets[0].id
        if isinstance(s.value, ast.Call) and _is_np(s.value.func, 'asanyarray') and v == x and len(s.value.args) == 1 \
                and isinstance(s.value.args[0], ast.Name) and s.value.args[0].id == x:
            continue                                   # x = np.asanyarray(x): identity on values
        lines.append('  let %s : ℚ := %s' % (v, t.q(s.value)))
    r = body[-1].value
    # return np.array(out, dtype=x.dtype): back to the integer dtype of the index vector
    ok = (isinstance(r, ast.Call) and _is_np(r.func, 'array') and len(r.args) == 1 and len(r.keywords) == 1 and r.keywords[0].arg == 'dtype'
          and isinstance(r.keywords[0].value, ast.Attribute) and r.keywords[0].value.attr == 'dtype'
          and isinstance(r.keywords[0].value.value, ast.Name) and r.keywords[0].value.value.id == x)
    if not ok:
        raise TranslateError('reflect: return form')
    lines.append('  asInt %s' % t.q(r.args[0]))
    return 'def reflect (%s : ℚ) : Int :=\n%s\n' % (' '.join(args), '\n'.join(lines))


def _reflect_call_on_arange(call, ints):
    """reflect(np.arange(a, b, dtype='int32'), lo, hi)  ->  (a, b, lo, hi) as Lean texts"""
    if not (isinstance(call, ast.Call) and isinstance(call.func, ast.Name) and call.func.id == 'reflect' and len(call.args) == 3 and not call.keywords):
        raise TranslateError('expected a call reflect(np.arange(..), lo, hi)')
    ar = call.args[0]
    if not (isinstance(ar, ast.Call) and _is_np(ar.func, 'arange') and len(ar.args) == 2 and len(ar.keywords) == 1 and ar.keywords[0].arg == 'dtype'
            and isinstance(ar.keywords[0].value, ast.Constant) and ar.keywords[0].value.value in ('int32', 'int64')):
        raise TranslateError('expected np.arange(a, b, dtype=int32) as the first argument of reflect')
    t = NpTranslator(ints)
    return t.z(ar.args[0]), t.z(ar.args[1]), t.q(call.args[1]), t.q(call.args[2])


def _translate_symm_pad(fn):
    args = [a.arg for a in fn.args.args]
    if len(args) != 2:
        raise TranslateError('symm_pad_1d: expected 2 parameters')
    body = _body(fn)
    if len(body) != 2 or not isinstance(body[0], ast.Assign) or not isinstance(body[1], ast.Return):
        raise TranslateError('symm_pad_1d: expected one assignment and a return')
    v = body[0].targets[0]
    if not (isinstance(v, ast.Name) and isinstance(body[1].value, ast.Name) and body[1].value.id == v.id):
        raise TranslateError('symm_pad_1d: return form')
    a, b, lo, hi = _reflect_call_on_arange(body[0].value, args)
    return ('def symm_pad_1d (%s : Int) : List Int :=\n  (arange %s %s).map fun (x : Int) => reflect (x : ℚ) %s %s\n' % (' '.join(args), a, b, lo, hi))


def _check_pad_sites():
    """every index vector built inside mypad / the dtcwt filters must be an instance of the translated helpers:
    the sites are compared with fixed shapes; a deviation means the translator can no longer follow the source"""
    low = os.path.join(rt.REPO, 'pytorch_wavelets', 'dwt', 'lowlevel.py')
    tree = ast.parse(open(low).read())
    imported = any(isinstance(n, ast.ImportFrom) and n.module == 'pytorch_wavelets.utils' and any(a.name == 'reflect' and a.asname in (None, 'reflect') for a in n.names) for n in tree.body)
    local = any(isinstance(n, ast.FunctionDef) and n.name == 'reflect' for n in ast.walk(tree))
    if not imported or local:
        raise TranslateError('dwt/lowlevel.py no longer takes reflect from pytorch_wavelets.utils')
    mypad = _find_fn(low, 'mypad')
    sym_sites = 0; per_sites = 0
    for c in ast.walk(mypad):
        if isinstance(c, ast.Call) and isinstance(c.func, ast.Name) and c.func.id == 'reflect':
            ar = c.args[0] if c.args else None
            names = {n.id for n in ast.walk(c) if isinstance(n, ast.Name)} - {'reflect', 'np'}
            a, b, lo, hi = _reflect_call_on_arange(c, names)
            # shape: reflect(arange(-m1, l+m2), -1/2, l - 1/2)
            ok = (isinstance(ar.args[0], ast.UnaryOp) and isinstance(ar.args[0].operand, ast.Name)
                  and isinstance(ar.args[1], ast.BinOp) and isinstance(ar.args[1].op, ast.Add) and isinstance(ar.args[1].left, ast.Name) and isinstance(ar.args[1].right, ast.Name)
                  and isinstance(c.args[1], ast.UnaryOp) and isinstance(c.args[1].operand, ast.Constant) and c.args[1].operand.value == 0.5
                  and isinstance(c.args[2], ast.BinOp) and isinstance(c.args[2].op, ast.Sub) and isinstance(c.args[2].left, ast.Name)
                  and c.args[2].left.id == ar.args[1].left.id and isinstance(c.args[2].right, ast.Constant) and c.args[2].right.value == 0.5)
            if not ok:
                raise TranslateError('mypad: a symmetric index vector is not reflect(arange(-m1, l+m2), -0.5, l-0.5)')
            sym_sites += 1
        if isinstance(c, ast.Call) and _is_np(c.func, 'pad'):
            ok = (len(c.args) == 2 and isinstance(c.args[0], ast.Name) and isinstance(c.args[1], ast.Tuple) and len(c.args[1].elts) == 2
                  and len(c.keywords) == 1 and c.keywords[0].arg == 'mode' and isinstance(c.keywords[0].value, ast.Constant) and c.keywords[0].value.value == 'wrap')
            if not ok:
                raise TranslateError("mypad: a periodic index vector is not np.pad(arange(n), (a, b), mode='wrap')")
            per_sites += 1
    if sym_sites != 4 or per_sites != 4:
        raise TranslateError('mypad: expected 4 symmetric and 4 periodic index-vector sites, found %d and %d' % (sym_sites, per_sites))
    dl = os.path.join(rt.REPO, 'pytorch_wavelets', 'dtcwt', 'lowlevel.py')
    tree = ast.parse(open(dl).read())
    imported = any(isinstance(n, ast.ImportFrom) and n.module == 'pytorch_wavelets.utils' and any(a.name == 'symm_pad_1d' and a.asname == 'symm_pad' for a in n.names) for n in tree.body)
    local = any(isinstance(n, (ast.FunctionDef, ast.Assign)) and (getattr(n, 'name', None) == 'symm_pad' or any(isinstance(t, ast.Name) and t.id == 'symm_pad' for t in getattr(n, 'targets', []))) for n in ast.walk(tree))
    if not imported or local:
        raise TranslateError('dtcwt/lowlevel.py no longer takes symm_pad from pytorch_wavelets.utils.symm_pad_1d')
    n_sites = sum(1 for c in ast.walk(tree) if isinstance(c, ast.Call) and isinstance(c.func, ast.Name) and c.func.id == 'symm_pad')
    return sym_sites, per_sites, n_sites


def gen_pad():
    path = os.path.join(rt.REPO, 'pytorch_wavelets', 'utils.py')
    out = ['/- GENERATED on every run by harness/translate.py from pytorch_wavelets/utils.py (reflect, symm_pad_1d)',
           '   — do not edit.  NumPy scalar semantics: WaveletsVerif/Model/NumpyQ.lean. -/',
           'import WaveletsVerif.Model.NumpyQ', 'namespace WV.Gen', 'open WV.NumpyQ', '']
    out.append(_translate_reflect(_find_fn(path, 'reflect')))
    out.append(_translate_symm_pad(_find_fn(path, 'symm_pad_1d')))
    s, p_, n = _check_pad_sites()
    out.append('/-- index-vector sites found in the source and checked to be instances of the helpers above -/')
    out.append('def pad_sites : Nat × Nat × Nat := (%d, %d, %d)   -- mypad symmetric, mypad periodic (np.pad wrap), dtcwt symm_pad' % (s, p_, n))
    out.append('\nend WV.Gen\n')
    return _write(os.path.join(GEN, 'Pad.lean'), '\n'.join(out))



# ---------------------------------------------------------------------------
# size arithmetic of the filter banks -> Lean (Gen/Sizes.lean)
# ---------------------------------------------------------------------------

class SizeTranslator(FnTranslator):
    """integer expressions of a function body with tensor sizes renamed: `alias` maps the source text of a sub-expression
    (ast.unparse) to a Lean variable, e.g. 'x.shape[dim]' -> 'N'"""

    def __init__(self, fn, alias):
        self.fn = fn
        self.alias = alias

    def expr(self, e):
        txt = ast.unparse(e)
        if txt in self.alias:
            return self.alias[txt]
        if isinstance(e, (ast.Subscript, ast.Attribute, ast.Call)):
            raise TranslateError('size expression %s is not an integer expression over the known sizes' % txt)
        return FnTranslator.expr(self, e)


def _walk_stmts(body):
    for st in body:
        yield st
        for fld in ('body', 'orelse'):
            sub = getattr(st, fld, None)
            if isinstance(sub, list):
                yield from _walk_stmts(sub)


def _assign_value(fn, var, nth=0):
    k = 0
    for st in _walk_stmts(fn.body):
        if isinstance(st, ast.Assign) and len(st.targets) == 1 and isinstance(st.targets[0], ast.Name) and st.targets[0].id == var:
            if k == nth:
                return st.value
            k += 1
    raise TranslateError('assignment #%d to %s not found in %s' % (nth, var, fn.name))


def _if_test(fn, containing, nth=0):
    k = 0
    for st in _walk_stmts(fn.body):
        if isinstance(st, ast.If) and containing in ast.unparse(st.test):
            if k == nth:
                return st.test
            k += 1
    raise TranslateError('if-test containing %r not found in %s' % (containing, fn.name))


def _call_arg(fn, fname, idx, nth=0):
    k = 0
    for node in ast.walk(fn):
        if isinstance(node, ast.Call) and ast.unparse(node.func) == fname:
            if k == nth:
                return node.args[idx]
            k += 1
    raise TranslateError('call #%d of %s not found in %s' % (nth, fname, fn.name))


def _ifexp_tuple(e, branch, idx):
    """element `idx` of the tuple in the `body`/`orelse` branch of `a if c else b`"""
    if not isinstance(e, ast.IfExp):
        raise TranslateError('expected a conditional expression, got %s' % ast.unparse(e))
    t = e.body if branch == 'body' else e.orelse
    if not isinstance(t, ast.Tuple):
        raise TranslateError('expected a tuple in %s' % ast.unparse(e))
    return t.elts[idx]


def _fold_stmt(fn, var, nth=0):
    """the in-place wrap-around fold  v[..., :a] = v[..., :a] + v[..., b:c]  ->  (a, b, c)"""
    k = 0
    for st in _walk_stmts(fn.body):
        if (isinstance(st, ast.Assign) and len(st.targets) == 1 and isinstance(st.targets[0], ast.Subscript)
                and ast.unparse(st.targets[0].value) == var and isinstance(st.value, ast.BinOp) and isinstance(st.value.op, ast.Add)):
            tgt, lhs, rhs = st.targets[0], st.value.left, st.value.right
            if ast.unparse(tgt) != ast.unparse(lhs) or not isinstance(rhs, ast.Subscript) or ast.unparse(rhs.value) != var:
                raise TranslateError('fold statement of %s has an unexpected form: %s' % (var, ast.unparse(st)))
            def last_slice(sub):
                sl = sub.slice.elts[-1] if isinstance(sub.slice, ast.Tuple) else sub.slice
                if not isinstance(sl, ast.Slice) or sl.step is not None:
                    raise TranslateError('unexpected slice in %s' % ast.unparse(sub))
                return sl
            a, b = last_slice(tgt), last_slice(rhs)
            if a.lower is not None or a.upper is None or b.lower is None or b.upper is None:
                raise TranslateError('unexpected fold bounds in %s' % ast.unparse(st))
            if k == nth:
                return a.upper, b.lower, b.upper
            k += 1
    raise TranslateError('fold statement #%d of %s not found in %s' % (nth, var, fn.name))


def _crop_upper(fn, var, nth=0):
    """v = v[..., :n]  ->  n"""
    k = 0
    for st in _walk_stmts(fn.body):
        if (isinstance(st, ast.Assign) and len(st.targets) == 1 and isinstance(st.targets[0], ast.Name) and st.targets[0].id == var
                and isinstance(st.value, ast.Subscript) and ast.unparse(st.value.value) == var):
            sl = st.value.slice.elts[-1] if isinstance(st.value.slice, ast.Tuple) else st.value.slice
            if isinstance(sl, ast.Slice) and sl.lower is None and sl.upper is not None and sl.step is None:
                if k == nth:
                    return sl.upper
                k += 1
    raise TranslateError('crop #%d of %s not found in %s' % (nth, var, fn.name))


def _call_arg_kw(fn, fname, idx, kw, kwval):
    """argument `idx` of the call of `fname` whose keyword `kw` has the literal value `kwval`"""
    for node in ast.walk(fn):
        if isinstance(node, ast.Call) and ast.unparse(node.func) == fname:
            for k in node.keywords:
                if k.arg == kw and isinstance(k.value, ast.Constant) and k.value.value == kwval:
                    return node.args[idx]
    raise TranslateError('call of %s with %s=%r not found in %s' % (fname, kw, kwval, fn.name))


def _crop_upper_at(fn, var, pos, nth=0):
    """v = v[..., :a, :b]  ->  the upper bound of the slice at position `pos` (negative, from the end)"""
    k = 0
    for st in _walk_stmts(fn.body):
        if (isinstance(st, ast.Assign) and len(st.targets) == 1 and isinstance(st.targets[0], ast.Name) and st.targets[0].id == var
                and isinstance(st.value, ast.Subscript) and ast.unparse(st.value.value) == var and isinstance(st.value.slice, ast.Tuple)):
            sl = st.value.slice.elts[pos]
            if isinstance(sl, ast.Slice) and sl.lower is None and sl.upper is not None and sl.step is None:
                if k == nth:
                    return sl.upper
                k += 1
    raise TranslateError('two-axis crop #%d of %s not found in %s' % (nth, var, fn.name))


def _fold_stmt_at(fn, var, pos_from_end, nth=0):
    """like _fold_stmt, for v[:, :, :a] = v[:, :, :a] + v[:, :, b:c] where the sliced axis is the LAST subscript given"""
    return _fold_stmt(fn, var, nth)


def _crop_slice(fn, var, nth=0):
    """v = v[..., a:b]  (both bounds given, on the LAST subscript written)  ->  (a, b)"""
    k = 0
    for st in _walk_stmts(fn.body):
        if (isinstance(st, ast.Assign) and len(st.targets) == 1 and isinstance(st.targets[0], ast.Name) and st.targets[0].id == var
                and isinstance(st.value, ast.Subscript) and ast.unparse(st.value.value) == var):
            sl = st.value.slice.elts[-1] if isinstance(st.value.slice, ast.Tuple) else st.value.slice
            if isinstance(sl, ast.Slice) and sl.lower is not None and sl.upper is not None and sl.step is None:
                if k == nth:
                    return sl.lower, sl.upper, (len(st.value.slice.elts) if isinstance(st.value.slice, ast.Tuple) else 1)
                k += 1
    raise TranslateError('crop a:b #%d of %s not found in %s' % (nth, var, fn.name))


def _tuple_elt(e, idx):
    if not isinstance(e, ast.Tuple):
        raise TranslateError('expected a tuple, got %s' % ast.unparse(e))
    return e.elts[idx]


def _kwarg_of_call(fn, fname, kw, nth=0):
    k = 0
    for st in _walk_stmts(fn.body):
        for node in ast.walk(st):
            if isinstance(node, ast.Call) and ast.unparse(node.func) == fname:
                for a in node.keywords:
                    if a.arg == kw:
                        if k == nth:
                            return a.value
                        k += 1
    raise TranslateError('keyword %s of call #%d of %s not found in %s' % (kw, nth, fname, fn.name))


def _find_method(path, cls, name):
    tree = ast.parse(open(path).read())
    for n in tree.body:
        if isinstance(n, ast.ClassDef) and n.name == cls:
            for m in n.body:
                if isinstance(m, ast.FunctionDef) and m.name == name:
                    return m
    raise TranslateError('%s.%s not found in %s' % (cls, name, path))


def gen_sizes():
    """the integer size arithmetic of afb1d / sfb1d (dwt/lowlevel.py), ScatLayerj2.forward (scatternet/layers.py) and
    DTCWTForward.forward (dtcwt/transform2d.py), expression by expression, as Lean functions over Int"""
    low = os.path.join(rt.REPO, 'pytorch_wavelets', 'dwt', 'lowlevel.py')
    out = ['/- GENERATED on every run by harness/translate.py from the size arithmetic of', '   dwt/lowlevel.py (afb1d, sfb1d), scatternet/layers.py (ScatLayerj2.forward), dtcwt/transform2d.py (DTCWTForward.forward)',
           '   — do not edit. -/', 'namespace WV.Gen.Sizes', '']

    def d(name, params, body, prop=False):
        out.append('def %s %s : %s := %s' % (name, ' '.join('(%s : Int)' % p_ for p_ in params), 'Prop' if prop else 'Int', body))

    fa = _find_fn(low, 'afb1d')
    t = SizeTranslator(fa, {'x.shape[dim]': 'N', 'x.shape[d]': 'N'})
    d('afb1d_L2', ['L'], t.expr(_assign_value(fa, 'L2')))
    d('afb1d_per_odd', ['N'], t.expr(_if_test(fa, 'x.shape[dim] % 2')), prop=True)
    d('afb1d_per_shift', ['L2'], t.expr(_call_arg(fa, 'roll', 1)))
    padv = _assign_value(fa, 'pad', 0)
    d('afb1d_per_pad_H', ['L'], t.expr(_ifexp_tuple(padv, 'body', 0)))
    d('afb1d_per_pad_W', ['L'], t.expr(_ifexp_tuple(padv, 'orelse', 1)))
    d('afb1d_per_N2', ['N'], t.expr(_assign_value(fa, 'N2')))
    for k, tag in ((0, 'H'), (1, 'W')):
        a, b, c = _fold_stmt(fa, 'lohi', k)
        d('afb1d_per_fold_width_' + tag, ['L2', 'N2'], t.expr(a)); d('afb1d_per_fold_from_' + tag, ['L2', 'N2'], t.expr(b)); d('afb1d_per_fold_to_' + tag, ['L2', 'N2'], t.expr(c))
        d('afb1d_per_crop_' + tag, ['N2'], t.expr(_crop_upper(fa, 'lohi', k)))
    d('afb1d_p', ['outsize', 'N', 'L'], t.expr(_assign_value(fa, 'p')))
    d('afb1d_zero_extra', ['p'], t.expr(_if_test(fa, 'p % 2')), prop=True)
    padz = _assign_value(fa, 'pad', 2)
    d('afb1d_zero_pad_H', ['p'], t.expr(_ifexp_tuple(padz, 'body', 0))); d('afb1d_zero_pad_W', ['p'], t.expr(_ifexp_tuple(padz, 'orelse', 1)))
    pads = _assign_value(fa, 'pad', 3)
    d('afb1d_ext_before_H', ['p'], t.expr(_ifexp_tuple(pads, 'body', 2))); d('afb1d_ext_after_H', ['p'], t.expr(_ifexp_tuple(pads, 'body', 3)))
    d('afb1d_ext_before_W', ['p'], t.expr(_ifexp_tuple(pads, 'orelse', 0))); d('afb1d_ext_after_W', ['p'], t.expr(_ifexp_tuple(pads, 'orelse', 1)))

    fs = _find_fn(low, 'sfb1d')
    t = SizeTranslator(fs, {'lo.shape[d]': 'n'})
    d('sfb1d_N', ['n'], t.expr(_assign_value(fs, 'N')))
    for k, tag in ((0, 'H'), (1, 'W')):
        a, b, c = _fold_stmt(fs, 'y', k)
        d('sfb1d_per_fold_width_' + tag, ['L', 'N'], t.expr(a)); d('sfb1d_per_fold_from_' + tag, ['L', 'N'], t.expr(b)); d('sfb1d_per_fold_to_' + tag, ['L', 'N'], t.expr(c))
        d('sfb1d_per_crop_' + tag, ['N'], t.expr(_crop_upper(fs, 'y', k)))
    d('sfb1d_per_shift', ['L'], t.expr(_call_arg(fs, 'roll', 1)))
    padt = _assign_value(fs, 'pad', 0)
    d('sfb1d_pad_H', ['L'], t.expr(_ifexp_tuple(padt, 'body', 0))); d('sfb1d_pad_W', ['L'], t.expr(_ifexp_tuple(padt, 'orelse', 1)))

    fj = _find_method(os.path.join(rt.REPO, 'pytorch_wavelets', 'scatternet', 'layers.py'), 'ScatLayerj2', 'forward')
    t = SizeTranslator(fj, {})
    d('scatj2_rem_rows', ['r'], t.expr(_assign_value(fj, 'rem', 0))); d('scatj2_rem_cols', ['c'], t.expr(_assign_value(fj, 'rem', 1)))
    d('scatj2_extend', ['rem'], t.expr(_if_test(fj, 'rem', 0)), prop=True)
    d('scatj2_rows_after', ['rem'], t.expr(_assign_value(fj, 'rows_after'))); d('scatj2_rows_before', ['rem'], t.expr(_assign_value(fj, 'rows_before')))
    d('scatj2_cols_after', ['rem'], t.expr(_assign_value(fj, 'cols_after'))); d('scatj2_cols_before', ['rem'], t.expr(_assign_value(fj, 'cols_before')))

    ff = _find_method(os.path.join(rt.REPO, 'pytorch_wavelets', 'dtcwt', 'transform2d.py'), 'DTCWTForward', 'forward')
    t = SizeTranslator(ff, {})
    d('dtcwt_fwd_rows_odd', ['r'], t.expr(_if_test(ff, 'r % 2')), prop=True); d('dtcwt_fwd_cols_odd', ['c'], t.expr(_if_test(ff, 'c % 2')), prop=True)
    d('dtcwt_fwd_rows_pad4', ['r'], t.expr(_if_test(ff, 'r % 4')), prop=True); d('dtcwt_fwd_cols_pad4', ['c'], t.expr(_if_test(ff, 'c % 4')), prop=True)
    # --- the non-separable banks (C19) and the a-trous bank (C13)
    fn = _find_fn(low, 'afb2d_nonsep')
    t = SizeTranslator(fn, {'x.shape[2]': 'Ny', 'x.shape[3]': 'Nx'})
    d('nonsep_per_odd_rows', ['Ny'], t.expr(_if_test(fn, 'x.shape[2] % 2')), prop=True)
    d('nonsep_per_odd_cols', ['Nx'], t.expr(_if_test(fn, 'x.shape[3] % 2')), prop=True)
    padp = _assign_value(fn, 'pad', 0)
    d('nonsep_per_pad_y', ['Ly'], t.expr(_tuple_elt(padp, 0))); d('nonsep_per_pad_x', ['Lx'], t.expr(_tuple_elt(padp, 1)))
    strd = _assign_value(fn, 'stride', 0)
    d('nonsep_per_stride_y', [], t.expr(_tuple_elt(strd, 0))); d('nonsep_per_stride_x', [], t.expr(_tuple_elt(strd, 1)))
    d('nonsep_per_shift_y', ['Ly'], t.expr(_call_arg_kw(fn, 'roll', 1, 'dim', 2))); d('nonsep_per_shift_x', ['Lx'], t.expr(_call_arg_kw(fn, 'roll', 1, 'dim', 3)))
    a, b, c = _fold_stmt(fn, 'y', 0)
    d('nonsep_per_fold_width_y', ['Ly', 'Ny'], t.expr(a)); d('nonsep_per_fold_from_y', ['Ly', 'Ny'], t.expr(b)); d('nonsep_per_fold_to_y', ['Ly', 'Ny'], t.expr(c))
    a, b, c = _fold_stmt(fn, 'y', 1)
    d('nonsep_per_fold_width_x', ['Lx', 'Nx'], t.expr(a)); d('nonsep_per_fold_from_x', ['Lx', 'Nx'], t.expr(b)); d('nonsep_per_fold_to_x', ['Lx', 'Nx'], t.expr(c))
    d('nonsep_per_crop_y', ['Ny'], t.expr(_crop_upper_at(fn, 'y', -2))); d('nonsep_per_crop_x', ['Nx'], t.expr(_crop_upper_at(fn, 'y', -1)))
    d('nonsep_p1', ['out1', 'Ny', 'Ly'], t.expr(_assign_value(fn, 'p1'))); d('nonsep_p2', ['out2', 'Nx', 'Lx'], t.expr(_assign_value(fn, 'p2')))
    zp = _kwarg_of_call(fn, 'F.conv2d', 'padding', 1)
    d('nonsep_zero_pad_y', ['p1'], t.expr(_tuple_elt(zp, 0))); d('nonsep_zero_pad_x', ['p2'], t.expr(_tuple_elt(zp, 1)))
    pe = _assign_value(fn, 'pad', 1)
    d('nonsep_ext_before_x', ['p2'], t.expr(_tuple_elt(pe, 0))); d('nonsep_ext_after_x', ['p2'], t.expr(_tuple_elt(pe, 1)))
    d('nonsep_ext_before_y', ['p1'], t.expr(_tuple_elt(pe, 2))); d('nonsep_ext_after_y', ['p1'], t.expr(_tuple_elt(pe, 3)))

    fn = _find_fn(low, 'sfb2d_nonsep')
    t = SizeTranslator(fn, {})
    a, b, c = _fold_stmt(fn, 'll', 0)
    d('nonsep_syn_fold_width_y', ['Ly', 'Ny'], t.expr(a)); d('nonsep_syn_fold_from_y', ['Ly', 'Ny'], t.expr(b)); d('nonsep_syn_fold_to_y', ['Ly', 'Ny'], t.expr(c))
    a, b, c = _fold_stmt(fn, 'll', 1)
    d('nonsep_syn_fold_width_x', ['Lx', 'Nx'], t.expr(a)); d('nonsep_syn_fold_from_x', ['Lx', 'Nx'], t.expr(b)); d('nonsep_syn_fold_to_x', ['Lx', 'Nx'], t.expr(c))
    d('nonsep_syn_crop_y', ['Ny'], t.expr(_crop_upper_at(fn, 'll', -2))); d('nonsep_syn_crop_x', ['Nx'], t.expr(_crop_upper_at(fn, 'll', -1)))
    d('nonsep_syn_shift_y', ['Ly'], t.expr(_call_arg_kw(fn, 'roll', 1, 'dim', 2))); d('nonsep_syn_shift_x', ['Lx'], t.expr(_call_arg_kw(fn, 'roll', 1, 'dim', 3)))
    pads = _assign_value(fn, 'pad', 0)
    d('nonsep_syn_pad_y', ['Ly'], t.expr(_tuple_elt(pads, 0))); d('nonsep_syn_pad_x', ['Lx'], t.expr(_tuple_elt(pads, 1)))

    fn = _find_fn(low, 'afb1d_atrous')
    t = SizeTranslator(fn, {})
    d('atrous_L2', ['L', 'dilation'], t.expr(_assign_value(fn, 'L2')))
    pada = _assign_value(fn, 'pad', 0)
    d('atrous_before_H', ['L2', 'dilation'], t.expr(_ifexp_tuple(pada, 'body', 2))); d('atrous_after_H', ['L2', 'dilation'], t.expr(_ifexp_tuple(pada, 'body', 3)))
    d('atrous_before_W', ['L2', 'dilation'], t.expr(_ifexp_tuple(pada, 'orelse', 0))); d('atrous_after_W', ['L2', 'dilation'], t.expr(_ifexp_tuple(pada, 'orelse', 1)))
    # --- DTCWTInverse.forward: when the low-pass is cropped to twice the band-pass size, and by how much; ScatLayer(j2).forward
    fi = _find_method(os.path.join(rt.REPO, 'pytorch_wavelets', 'dtcwt', 'transform2d.py'), 'DTCWTInverse', 'forward')
    t = SizeTranslator(fi, {})
    for nth, tag in ((0, 'loop'), (1, 'last')):
        d('dtcwt_inv_rows_differ_' + tag, ['r', 'r1'], t.expr(_if_test(fi, 'r != r1', nth)), prop=True)
        d('dtcwt_inv_cols_differ_' + tag, ['c', 'c1'], t.expr(_if_test(fi, 'c != c1', nth)), prop=True)
    for nth, tag in ((0, 'rows_loop'), (1, 'cols_loop'), (2, 'rows_last'), (3, 'cols_last')):
        lo_, hi_, pos = _crop_slice(fi, 'low', nth)
        d('dtcwt_inv_crop_from_' + tag, [], t.expr(lo_)); d('dtcwt_inv_crop_to_' + tag, [], t.expr(hi_))
        d('dtcwt_inv_crop_axis_' + tag, [], '(%d : Int)' % (pos - 1))
    f1 = _find_method(os.path.join(rt.REPO, 'pytorch_wavelets', 'scatternet', 'layers.py'), 'ScatLayer', 'forward')
    t = SizeTranslator(f1, {})
    d('scat1_rows_odd', ['r'], t.expr(_if_test(f1, 'r % 2')), prop=True); d('scat1_cols_odd', ['c'], t.expr(_if_test(f1, 'c % 2')), prop=True)
    d('scat1_channels', ['c'], t.expr(_call_arg(f1, 'Z.view', 1)))
    t = SizeTranslator(fj, {})
    d('scatj2_channels', ['c'], t.expr(_call_arg(fj, 'Z.view', 1)))
    # --- the `roll` helper (dwt/lowlevel.py): the normalisation of a negative shift and the two slice bounds of each `dim` branch
    fr = _find_fn(low, 'roll')
    t = SizeTranslator(fr, {'x.shape[dim]': 'N'})
    neg = None
    for st in fr.body:
        if isinstance(st, ast.If) and ast.unparse(st.test) == 'n < 0' and len(st.body) == 1 and isinstance(st.body[0], ast.Assign) and ast.unparse(st.body[0].targets[0]) == 'n' and not st.orelse:
            neg = st.body[0].value
    if neg is None:
        raise TranslateError('roll: the statement `if n < 0: n = ...` was not found')
    d('roll_norm', ['n', 'N'], '(if n < 0 then %s else n)' % t.expr(neg))
    rets = [node for node in ast.walk(fr) if isinstance(node, ast.Return)]
    if len(rets) != 4:
        raise TranslateError('roll: expected four return statements (one per dim), found %d' % len(rets))
    t2 = SizeTranslator(fr, {'end': 'e'})
    for k, r in enumerate(rets):
        call = r.value
        if not (isinstance(call, ast.Call) and ast.unparse(call.func) == 'torch.cat' and isinstance(call.args[0], ast.Tuple) and len(call.args[0].elts) == 2):
            raise TranslateError('roll: return #%d is not torch.cat((a, b), dim=...)' % k)
        a, b = call.args[0].elts
        def last(sub):
            sl = sub.slice.elts[-1] if isinstance(sub.slice, ast.Tuple) else sub.slice
            npos = len(sub.slice.elts) if isinstance(sub.slice, ast.Tuple) else 1
            if ast.unparse(sub.value) != 'x' or not isinstance(sl, ast.Slice) or sl.step is not None:
                raise TranslateError('roll: unexpected slice %s' % ast.unparse(sub))
            return sl, npos
        sa, na = last(a); sb, nb = last(b)
        dimkw = [kw.value.value for kw in call.keywords if kw.arg == 'dim']
        if sa.upper is not None or sa.lower is None or sb.lower is not None or sb.upper is None or na != nb or dimkw != [na - 1]:
            raise TranslateError('roll: return #%d has an unexpected form: %s' % (k, ast.unparse(r)))
        d('roll_first_from_%d' % (na - 1), ['n'], t2.expr(sa.lower)); d('roll_second_to_%d' % (na - 1), ['n', 'e'], t2.expr(sb.upper))
    # --- which filter-preparation helpers mirror the taps (`h[::-1]`)
    def mirrors(fn, param):
        for node in ast.walk(fn):
            if isinstance(node, ast.Subscript) and isinstance(node.slice, ast.Slice) and node.slice.step is not None and ast.unparse(node.slice.step) == '-1' \
                    and node.slice.lower is None and node.slice.upper is None and param in ast.unparse(node.value):
                return True
        return False
    dlow = os.path.join(rt.REPO, 'pytorch_wavelets', 'dtcwt', 'lowlevel.py')
    flags = [('prep_afb1d_mirrors_h0', mirrors(_find_fn(low, 'prep_filt_afb1d'), 'h0')), ('prep_afb1d_mirrors_h1', mirrors(_find_fn(low, 'prep_filt_afb1d'), 'h1')),
             ('prep_sfb1d_mirrors_g0', mirrors(_find_fn(low, 'prep_filt_sfb1d'), 'g0')), ('prep_sfb1d_mirrors_g1', mirrors(_find_fn(low, 'prep_filt_sfb1d'), 'g1')),
             ('dtcwt_prep_filt_mirrors', mirrors(_find_fn(dlow, 'prep_filt'), 'h'))]
    for name, val in flags:
        out.append('def %s : Bool := %s' % (name, 'true' if val else 'false'))
    # --- module glue of the DWT classes (round 12): which Function each level calls with which arguments in which order, the order of
    # the levels, the one-sample crops of the inverse loops, the dilation of the stationary transform, the axes the 2-D filters are
    # reshaped onto
    t2d = os.path.join(rt.REPO, 'pytorch_wavelets', 'dwt', 'transform2d.py'); t1d = os.path.join(rt.REPO, 'pytorch_wavelets', 'dwt', 'transform1d.py')

    def method(path, cls, name):
        tree = ast.parse(open(path).read())
        for n in tree.body:
            if isinstance(n, ast.ClassDef) and n.name == cls:
                for b in n.body:
                    if isinstance(b, ast.FunctionDef) and b.name == name:
                        return b
        raise TranslateError('%s.%s not found' % (cls, name))

    def the_call(fn, attr_chain):
        hits = [c for c in ast.walk(fn) if isinstance(c, ast.Call) and ast.unparse(c.func) == attr_chain]
        if len(hits) != 1:
            raise TranslateError('%s: expected exactly one call of %s, found %d' % (fn.name, attr_chain, len(hits)))
        if hits[0].keywords:
            raise TranslateError('%s: keyword arguments in the call of %s' % (fn.name, attr_chain))
        return hits[0]

    def strs(name, xs):
        out.append('def %s : List String := [%s]' % (name, ', '.join('"%s"' % x for x in xs)))

    def the_loop(fn):
        loops = [n for n in ast.walk(fn) if isinstance(n, ast.For)]
        if len(loops) != 1:
            raise TranslateError('%s: expected exactly one level loop, found %d' % (fn.name, len(loops)))
        return loops[0]

    def crop_tests(fn, tag, big, small, axes):
        """`if big.shape[a] > small.shape[a]: big = big[..., :-1 (, :)]` for each axis a (negative index)"""
        ifs = [n for n in ast.walk(fn) if isinstance(n, ast.If) and isinstance(n.test, ast.Compare) and len(n.test.ops) == 1
               and isinstance(n.test.left, ast.Subscript) and ast.unparse(n.test.left.value) == big + '.shape']
        if len(ifs) != len(axes):
            raise TranslateError('%s: expected %d crop tests on %s, found %d' % (fn.name, len(axes), big, len(ifs)))
        for n, ax in zip(ifs, axes):
            l, r = n.test.left, n.test.comparators[0]
            if not (isinstance(n.test.ops[0], ast.Gt) and ast.unparse(l.slice) == str(ax) and ast.unparse(r) == '%s.shape[%d]' % (small, ax)):
                raise TranslateError('%s: crop test %s' % (fn.name, ast.unparse(n.test)))
            if len(n.body) != 1 or n.orelse or not (isinstance(n.body[0], ast.Assign) and ast.unparse(n.body[0].targets[0]) == big
                                                     and isinstance(n.body[0].value, ast.Subscript) and ast.unparse(n.body[0].value.value) == big):
                raise TranslateError('%s: crop statement %s' % (fn.name, ast.unparse(n)))
            sl = n.body[0].value.slice
            elts = list(sl.elts) if isinstance(sl, ast.Tuple) else [sl]
            if not (isinstance(elts[0], ast.Constant) and elts[0].value is Ellipsis):
                raise TranslateError('%s: crop does not start with an ellipsis' % fn.name)
            rest = elts[1:]
            pos = len(rest) + ax            # index of the cropped axis among the trailing slices
            for k, e in enumerate(rest):
                if not isinstance(e, ast.Slice) or e.lower is not None or e.step is not None:
                    raise TranslateError('%s: crop slice %s' % (fn.name, ast.unparse(sl)))
                if (k == pos) != (e.upper is not None):
                    raise TranslateError('%s: the crop %s is not on axis %d' % (fn.name, ast.unparse(sl), ax))
            tt = SizeTranslator(fn, {ast.unparse(l): 'l', ast.unparse(r): 'h'})
            d('%s_crop_test_%s' % (tag, 'rows' if ax == -2 else 'cols'), ['l', 'h'], tt.expr(n.test), prop=True)
            d('%s_crop_to_%s' % (tag, 'rows' if ax == -2 else 'cols'), [], tt.expr(rest[pos].upper))

    f = method(t2d, 'DWTForward', 'forward')
    strs('dwtfwd2_call_args', [ast.unparse(a) for a in the_call(f, 'lowlevel.AFB2D.apply').args])
    lp = the_loop(f)
    strs('dwtfwd2_loop', [ast.unparse(lp.target), ast.unparse(lp.iter)])
    f = method(t2d, 'DWTInverse', 'forward')
    strs('dwtinv2_call_args', [ast.unparse(a) for a in the_call(f, 'lowlevel.SFB2D.apply').args])
    lp = the_loop(f)
    strs('dwtinv2_loop', [ast.unparse(lp.target), ast.unparse(lp.iter)])
    crop_tests(f, 'dwtinv2', 'll', 'h', [-2, -1])
    f = method(t1d, 'DWT1DForward', 'forward')
    strs('dwtfwd1_call_args', [ast.unparse(a) for a in the_call(f, 'lowlevel.AFB1D.apply').args])
    lp = the_loop(f)
    strs('dwtfwd1_loop', [ast.unparse(lp.target), ast.unparse(lp.iter)])
    f = method(t1d, 'DWT1DInverse', 'forward')
    strs('dwtinv1_call_args', [ast.unparse(a) for a in the_call(f, 'lowlevel.SFB1D.apply').args])
    lp = the_loop(f)
    strs('dwtinv1_loop', [ast.unparse(lp.target), ast.unparse(lp.iter)])
    crop_tests(f, 'dwtinv1', 'x0', 'x1', [-1])
    f = method(t2d, 'SWTForward', 'forward')
    c = the_call(f, 'lowlevel.afb2d_atrous')
    strs('swt_call_args', [ast.unparse(a) for a in c.args[:3]])
    lp = the_loop(f)
    strs('swt_loop', [ast.unparse(lp.target), ast.unparse(lp.iter)])
    dil = c.args[3]
    if not (isinstance(dil, ast.BinOp) and isinstance(dil.op, ast.Pow) and isinstance(dil.left, ast.Constant) and isinstance(dil.right, ast.Name) and dil.right.id == ast.unparse(lp.target)):
        raise TranslateError('SWTForward: dilation %s' % ast.unparse(dil))
    d('swt_dilation_base', [], SizeTranslator(f, {}).expr(dil.left))
    filts = [n for n in ast.walk(f) if isinstance(n, ast.Assign) and ast.unparse(n.targets[0]) == 'filts']
    if len(filts) != 1 or not isinstance(filts[0].value, ast.Tuple):
        raise TranslateError('SWTForward: filts')
    strs('swt_filts', [ast.unparse(e) for e in filts[0].value.elts])
    # the 2-D preparation helpers: both axis pairs go through the 1-D helper (so inherit its mirroring), columns onto axis 2, rows onto axis 3
    for nm, one in (('prep_filt_afb2d', 'prep_filt_afb1d'), ('prep_filt_sfb2d', 'prep_filt_sfb1d')):
        fn = _find_fn(low, nm)
        params = [a.arg for a in fn.args.args[:4]]
        calls = [c for c in ast.walk(fn) if isinstance(c, ast.Call) and getattr(c.func, 'id', None) == one]
        strs(nm + '_1d_calls', sorted(', '.join(ast.unparse(a) for a in c.args[:2]) for c in calls))
        for prm in params:
            rs = [n for n in ast.walk(fn) if isinstance(n, ast.Assign) and ast.unparse(n.targets[0]) == prm and isinstance(n.value, ast.Call)
                  and isinstance(n.value.func, ast.Attribute) and n.value.func.attr == 'reshape' and ast.unparse(n.value.func.value) == prm]
            if len(rs) != 1:
                raise TranslateError('%s: reshape of %s' % (nm, prm))
            shp = ast.literal_eval(rs[0].value.args[0])
            if sorted(shp) != [-1, 1, 1, 1]:
                raise TranslateError('%s: reshape of %s to %r' % (nm, prm, shp))
            d('%s_axis_%s' % (nm, prm), [], '(%d : Int)' % list(shp).index(-1))
        dflt = [n for n in ast.walk(fn) if isinstance(n, ast.If) and isinstance(n.test, ast.Compare) and isinstance(n.test.ops[0], ast.Is) and ast.unparse(n.test.left) == params[2]]
        if len(dflt) != 1 or len(dflt[0].body) != 1:
            raise TranslateError('%s: default of the row filters' % nm)
        strs(nm + '_row_default', [ast.unparse(dflt[0].body[0])])
    # --- module glue of the DTCWT classes: the Functions called per level with their arguments in order, the two loop headers, where the
    # level results are stored, what the forward returns
    dt2d = os.path.join(rt.REPO, 'pytorch_wavelets', 'dtcwt', 'transform2d.py')

    def the_loop_with(fn, callee):
        loops = [n for n in ast.walk(fn) if isinstance(n, ast.For) and any(isinstance(c, ast.Call) and ast.unparse(c.func) == callee for c in ast.walk(n))]
        if len(loops) != 1:
            raise TranslateError('%s: expected exactly one loop around %s, found %d' % (fn.name, callee, len(loops)))
        return loops[0]

    def stores(fn, names):
        """assignments whose target is a subscript of one of `names`, as source text, in source order"""
        res = []
        for st in _walk_stmts(fn.body):
            if isinstance(st, ast.Assign) and len(st.targets) == 1 and isinstance(st.targets[0], ast.Subscript) and ast.unparse(st.targets[0].value) in names:
                res.append(ast.unparse(st))
        return res

    f = method(dt2d, 'DTCWTForward', 'forward')
    strs('dtcwtfwd_j1_args', [ast.unparse(a) for a in the_call(f, 'FWD_J1.apply').args])
    strs('dtcwtfwd_j2_args', [ast.unparse(a) for a in the_call(f, 'FWD_J2PLUS.apply').args])
    lp = the_loop_with(f, 'FWD_J2PLUS.apply')
    strs('dtcwtfwd_loop', [ast.unparse(lp.target), ast.unparse(lp.iter)])
    strs('dtcwtfwd_stores', stores(f, ('highs', 'scales')))
    strs('dtcwtfwd_returns', [ast.unparse(r.value) for r in ast.walk(f) if isinstance(r, ast.Return) and r.value is not None])
    strs('dtcwtfwd_self_writes', sorted(set(ast.unparse(t) for st in ast.walk(f) if isinstance(st, (ast.Assign, ast.AugAssign))
                                            for t in (st.targets if isinstance(st, ast.Assign) else [st.target]) if ast.unparse(t).startswith('self.'))))
    f = method(dt2d, 'DTCWTInverse', 'forward')
    strs('dtcwtinv_j1_args', [ast.unparse(a) for a in the_call(f, 'INV_J1.apply').args])
    strs('dtcwtinv_j2_args', [ast.unparse(a) for a in the_call(f, 'INV_J2PLUS.apply').args])
    lp = the_loop_with(f, 'INV_J2PLUS.apply')
    strs('dtcwtinv_loop', [ast.unparse(lp.target), ast.unparse(lp.iter)])
    strs('dtcwtinv_self_writes', sorted(set(ast.unparse(t) for st in ast.walk(f) if isinstance(st, (ast.Assign, ast.AugAssign))
                                            for t in (st.targets if isinstance(st, ast.Assign) else [st.target]) if ast.unparse(t).startswith('self.'))))
    for cls, tag in (('DWTForward', 'dwtfwd2'), ('DWTInverse', 'dwtinv2'), ('SWTForward', 'swt')):
        f = method(t2d, cls, 'forward')
        strs(tag + '_self_writes', sorted(set(ast.unparse(t) for st in ast.walk(f) if isinstance(st, (ast.Assign, ast.AugAssign))
                                              for t in (st.targets if isinstance(st, ast.Assign) else [st.target]) if ast.unparse(t).startswith('self.'))))
    sl = os.path.join(rt.REPO, 'pytorch_wavelets', 'scatternet', 'layers.py')
    for cls, tag in (('ScatLayer', 'scat1'), ('ScatLayerj2', 'scatj2')):
        f = method(sl, cls, 'forward')
        strs(tag + '_self_writes', sorted(set(ast.unparse(t) for st in ast.walk(f) if isinstance(st, (ast.Assign, ast.AugAssign))
                                              for t in (st.targets if isinstance(st, ast.Assign) else [st.target]) if ast.unparse(t).startswith('self.'))))
    for cls, tag, fns in (('ScatLayer', 'scat1', ('ScatLayerj1_f', 'ScatLayerj1_rot_f')), ('ScatLayerj2', 'scatj2', ('ScatLayerj2_f', 'ScatLayerj2_rot_f'))):
        f = method(sl, cls, 'forward')
        for fn_ in fns:
            strs('%s_args_%s' % (tag, 'rot' if 'rot' in fn_ else 'plain'), [ast.unparse(a) for a in the_call(f, fn_ + '.apply').args])
    for cls, tag in (('DWT1DForward', 'dwtfwd1'), ('DWT1DInverse', 'dwtinv1')):
        f = method(t1d, cls, 'forward')
        strs(tag + '_self_writes', sorted(set(ast.unparse(t) for st in ast.walk(f) if isinstance(st, (ast.Assign, ast.AugAssign))
                                              for t in (st.targets if isinstance(st, ast.Assign) else [st.target]) if ast.unparse(t).startswith('self.'))))
    # --- statements that write INTO a function parameter (subscript stores, augmented assignments, trailing-underscore methods) anywhere
    # in the library: what a caller hands in is never written to (C15, C10); only the two integer `o_dim -= 1` of the axis helpers exist
    hits = []
    for rel in ('dwt/lowlevel.py', 'dwt/transform1d.py', 'dwt/transform2d.py', 'dtcwt/lowlevel.py', 'dtcwt/transform_funcs.py', 'dtcwt/transform2d.py',
                'scatternet/lowlevel.py', 'scatternet/layers.py', 'utils.py'):
        tree = ast.parse(open(os.path.join(rt.REPO, 'pytorch_wavelets', rel)).read())

        def base(e):
            while isinstance(e, (ast.Subscript, ast.Attribute)):
                e = e.value
            return e.id if isinstance(e, ast.Name) else None
        for fn in ast.walk(tree):
            if not isinstance(fn, ast.FunctionDef):
                continue
            params = {a_.arg for a_ in fn.args.args + fn.args.kwonlyargs} - {'self', 'ctx', 'cls'}
            if fn.args.vararg:
                params.add(fn.args.vararg.arg)
            for st in ast.walk(fn):
                if isinstance(st, ast.Assign) and any(isinstance(t_, ast.Subscript) and base(t_) in params for t_ in st.targets):
                    hits.append('%s: %s' % (fn.name, ast.unparse(st)[:60]))
                elif isinstance(st, ast.AugAssign) and base(st.target) in params:
                    hits.append('%s: %s' % (fn.name, ast.unparse(st)[:60]))
                elif isinstance(st, ast.Call) and isinstance(st.func, ast.Attribute) and st.func.attr.endswith('_') and not st.func.attr.endswith('__') \
                        and base(st.func.value) in params:
                    hits.append('%s: %s' % (fn.name, ast.unparse(st)[:60]))
    strs('writes_into_parameters', [h.replace('"', "'") for h in hits])
    out.append('\nend WV.Gen.Sizes\n')
    return _write(os.path.join(GEN, 'Sizes.lean'), '\n'.join(out))


SIZE_PROPS = {'C01', 'C10', 'C08', 'C03', 'C19', 'C13', 'C04', 'C11', 'C14', 'C17', 'C02', 'C07', 'C05', 'C12', 'C06', 'C15', 'C09'}     # the properties whose theorem lists include the size-arithmetic tie (C01Z)

PAD_PROPS = {'C01', 'C03', 'C04', 'C11'}      # the properties whose theorem lists include the padding-helper tie (C03T)


def regen_all(prop=None):
    gen_dims()
    gen_modes()
    gen_tables()
    try:
        gen_pad()
    except TranslateError:
        # a helper the translator cannot follow is a broken obligation of the properties that rest on the tie theorems;
        # the others keep the last generated file (they do not import it)
        if prop is None or prop in PAD_PROPS:
            raise
    try:
        gen_sizes()
    except TranslateError:
        if prop is None or prop in SIZE_PROPS:
            raise


if __name__ == '__main__':
    regen_all()
    print('regenerated', GEN)
